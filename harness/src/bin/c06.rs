//! C06 correspondence: the context the real `buildpack_main!` executable (`tbp`) receives, dumped as canonical text,
//! against what the (generated) platform supplied: platform dir with arbitrary entries, CNB_TARGET_* variables,
//! buildpack plan, store, buildpack descriptor with metadata built from nested TOML values.
//!
//! fields: 0 phase | 1 hex(app)/hex(bp)/hex(layers)[/flags] names; flags: `e` = `<platform>/env` is a symbolic link to the
//! directory that holds the entries, `p` = the platform directory argument is a symbolic link | 2 os,arch,variant,dname,dver
//! each `-` / `u<hex>` (valid UTF-8) / `n<hex>` (not UTF-8) | 3 platform: noplat / noenv / notdir / envdangling (env is a
//! dangling link) / envlinkfile (env is a link to a regular file) / `-` / `hexname:kind:hexcontent[:hexsibling],…`; kinds:
//! f file, d directory, de empty directory, lf link to file, lr relative link to file, l2 link to link to file, ls link to the
//! sibling entry (a kind-f entry with the same content), hf hard link to a file outside, hs hard link to the sibling entry,
//! ld link to directory, ld2 link to link to directory, dl dangling link, lo link to itself |
//! 4 hex(plan TOML) 5 expected plan | 6 hex(store TOML) or none 7 expected store | 8 hex(buildpack.toml) 9 expected descriptor |
//! fields 4 / 6 / 8 may instead hold a *raw state* of the document (its expected field 5 / 7 / 9 is then `!`): `raw:<hex>` a regular file
//! with exactly these bytes (not valid UTF-8, or a String that is no TOML), `lnk:<hex>` a symbolic link to such a file, `dir` a
//! directory at the path, `lnkdir` a link to a directory, `missing` nothing at the path, `dangling` a dangling link (store: expected
//! `none`, tolerated) |
//! 10 (optional) other variables of the process environment, `hexname=hexvalue,…` (none of them named like an input; `-` = none)
//! 11 (optional, needs field 10) the *texts* of the paths the platform hands over, `hex(layers)/hex(platform)/hex(plan)/hex(bp)/hex(cwd)`:
//! the three positional arguments (`-` for layers in detect), the value of CNB_BUILDPACK_DIR, the path the working directory is
//! entered by. `$T` in a text stands for the case's temp root; a text not starting with `/` is relative to the working directory.
//! Without field 11 every path is the plain absolute `$T/<name>`. With it the temp root also holds (see `scaffold`): `mnt -> .`,
//! `vol/0f3a -> $T`, `sub/`, `sub2/inner/`, `sub/up -> ../sub2/inner`, `ln-app ln-bp ln-layers ln-plat ln-plan` (links to the five
//! objects themselves) and, inside the app directory, `rel-bp rel-layers rel-plat rel-plan` (links to the other four). A text that
//! does not lead to the object it is meant for is refused (`bad-fields`).
use cnbv::*;
use std::ffi::OsString;
use std::os::unix::ffi::{OsStrExt, OsStringExt};
use std::path::PathBuf;
use std::process::{Command, Stdio};

fn tbp_path() -> PathBuf { std::env::current_exe().unwrap().parent().unwrap().join("tbp") }
fn os(b: &[u8]) -> OsString { OsString::from_vec(b.to_vec()) }

/// variables the harness itself sets; an "other variable" of field 10 must not be one of them
const INPUT_VARS: &[&str] = &["CNB_TARGET_OS", "CNB_TARGET_ARCH", "CNB_TARGET_ARCH_VARIANT", "CNB_TARGET_DISTRO_NAME", "CNB_TARGET_DISTRO_VERSION", "CNB_BUILDPACK_DIR", "TBP_OUT", "TBP_DETECT", "TBP_BUILD"];

fn run_case(f: &[String]) -> String {
    if f.len() != 10 && f.len() != 11 && f.len() != 12 { return "bad-fields".into(); }
    let phase = f[0].as_str();
    let tmp = tempfile::Builder::new().prefix("c06-").tempdir().unwrap();
    let t = std::fs::canonicalize(tmp.path()).unwrap();
    let dparts: Vec<&str> = f[1].split('/').collect();
    if dparts.len() != 3 && dparts.len() != 4 { return "bad-fields".into(); }
    let names: Vec<Vec<u8>> = dparts[..3].iter().map(|h| unhex(h).unwrap()).collect();
    let flags = if dparts.len() == 4 { dparts[3] } else { "" };
    if !flags.chars().all(|c| c == 'e' || c == 'p') { return "bad-fields".into(); }
    let (app, bp, layers) = (t.join(os(&names[0])), t.join(os(&names[1])), t.join(os(&names[2])));
    let (plat, lt, out, work) = (t.join("plat"), t.join("lt"), t.join("out"), t.join("work"));
    for d in [&app, &bp, &layers, &lt, &out, &work] { std::fs::create_dir(d).unwrap(); }
    std::fs::create_dir(bp.join("bin")).unwrap();
    let exe = bp.join("bin").join(phase);
    std::os::unix::fs::symlink(tbp_path(), &exe).unwrap();
    if place_doc(&bp.join("buildpack.toml"), &f[8], &lt, "desc").is_none() { return "bad-fields".into(); }
    // platform directory (`plat` is what the executable is given; with flag p it is a link to the real one)
    let real_plat = if flags.contains('p') { t.join("plat-real") } else { plat.clone() };
    let mk_plat = || { std::fs::create_dir(&real_plat).unwrap(); if flags.contains('p') { std::os::unix::fs::symlink(&real_plat, &plat).unwrap(); } };
    match f[3].as_str() {
        "noplat" => {}
        "noenv" => mk_plat(),
        "notdir" => { mk_plat(); std::fs::write(real_plat.join("env"), b"x").unwrap(); }
        "envdangling" => { mk_plat(); std::os::unix::fs::symlink(lt.join("missing-env"), real_plat.join("env")).unwrap(); }
        "envlinkfile" => { mk_plat(); std::fs::write(lt.join("env-file"), b"x").unwrap(); std::os::unix::fs::symlink(lt.join("env-file"), real_plat.join("env")).unwrap(); }
        spec => {
            mk_plat();
            // with flag e the entries live in <tmp>/lt/env-real and <platform>/env is a link to that directory
            let env = if flags.contains('e') { lt.join("env-real") } else { real_plat.join("env") };
            std::fs::create_dir(&env).unwrap();
            if flags.contains('e') { std::os::unix::fs::symlink(&env, real_plat.join("env")).unwrap(); }
            let up = if flags.contains('e') { "../" } else { "../../lt/" }; // from the entries' directory to <tmp>/lt/
            let entries: Vec<Vec<&str>> = split_list(spec, ",").iter().map(|e| e.split(':').collect()).collect();
            for pass in 0..2 {
                for (k, p) in entries.iter().enumerate() {
                    if p.len() != 3 && p.len() != 4 { return "bad-fields".into(); }
                    if (p[1] == "hs") != (pass == 1) { continue; } // hard links to siblings once the siblings exist
                    let (Some(name), Some(content)) = (unhex(p[0]), unhex(p[2])) else { return "bad-fields".into() };
                    let path = env.join(os(&name));
                    let sibling = if p.len() == 4 { let Some(sb) = unhex(p[3]) else { return "bad-fields".into() }; Some(sb) } else { None };
                    if sibling.is_some() != matches!(p[1], "ls" | "hs") { return "bad-fields".into(); }
                    if let Some(sb) = &sibling {
                        // the sibling must be a regular-file entry of this listing with the same content
                        if !entries.iter().any(|q| q.len() == 3 && q[1] == "f" && unhex(q[0]).as_deref() == Some(sb.as_slice()) && q[2] == p[2]) { return "bad-fields".into(); }
                    }
                    match p[1] {
                        "f" => std::fs::write(&path, &content).unwrap(),
                        "d" => { std::fs::create_dir(&path).unwrap(); std::fs::write(path.join("INSIDE"), b"not a variable").unwrap(); }
                        "de" => std::fs::create_dir(&path).unwrap(),
                        "lf" => { let tgt = lt.join(format!("f{k}")); std::fs::write(&tgt, &content).unwrap(); std::os::unix::fs::symlink(&tgt, &path).unwrap(); }
                        "lr" => { std::fs::write(lt.join(format!("f{k}")), &content).unwrap(); std::os::unix::fs::symlink(format!("{up}f{k}"), &path).unwrap(); }
                        "l2" => { std::fs::write(lt.join(format!("f{k}")), &content).unwrap(); std::os::unix::fs::symlink(format!("f{k}"), lt.join(format!("m{k}"))).unwrap(); std::os::unix::fs::symlink(lt.join(format!("m{k}")), &path).unwrap(); }
                        "ls" => std::os::unix::fs::symlink(os(sibling.as_ref().unwrap()), &path).unwrap(),
                        "hf" => { let tgt = lt.join(format!("h{k}")); std::fs::write(&tgt, &content).unwrap(); std::fs::hard_link(&tgt, &path).unwrap(); }
                        "hs" => std::fs::hard_link(env.join(os(sibling.as_ref().unwrap())), &path).unwrap(),
                        "ld" => { let tgt = lt.join(format!("d{k}")); std::fs::create_dir(&tgt).unwrap(); std::fs::write(tgt.join("INSIDE"), b"x").unwrap(); std::os::unix::fs::symlink(&tgt, &path).unwrap(); }
                        "ld2" => { let tgt = lt.join(format!("d{k}")); std::fs::create_dir(&tgt).unwrap(); std::fs::write(tgt.join("INSIDE"), b"x").unwrap(); std::os::unix::fs::symlink(format!("d{k}"), lt.join(format!("md{k}"))).unwrap(); std::os::unix::fs::symlink(format!("{up}md{k}"), &path).unwrap(); }
                        "dl" => std::os::unix::fs::symlink(lt.join(format!("missing{k}")), &path).unwrap(),
                        "lo" => std::os::unix::fs::symlink(os(&name), &path).unwrap(),
                        _ => return "bad-fields".into(),
                    }
                    if !matches!(p[1], "f" | "lf" | "lr" | "l2" | "ls" | "hf" | "hs") && !content.is_empty() { return "bad-fields".into(); }
                }
            }
        }
    }
    let bpplan = work.join("bpplan.toml");
    if phase == "build" {
        if place_doc(&bpplan, &f[4], &lt, "plan").is_none() { return "bad-fields".into(); }
        if f[6] != "none" && place_doc(&layers.join("store.toml"), &f[6], &lt, "store").is_none() { return "bad-fields".into(); }
    }
    let mut cmd = Command::new(&exe);
    let plan_file = if phase == "build" { bpplan.clone() } else { work.join("plan.toml") };
    if f.len() == 12 {
        // the path texts of field 11, handed over as written
        let names_s: Vec<OsString> = names.iter().map(|n| os(n)).collect();
        if scaffold(&t, &names_s, &plan_file).is_err() { return "bad-fields".into(); }
        let tx: Vec<&str> = f[11].split('/').collect();
        if tx.len() != 5 || (tx[0] == "-") != (phase == "detect") { return "bad-fields".into(); }
        let mut texts: Vec<Option<OsString>> = vec![];
        for (k, h) in tx.iter().enumerate() {
            if k == 0 && *h == "-" { texts.push(None); continue; }
            let Some(b) = unhex(h) else { return "bad-fields".into() };
            if b.is_empty() || b.contains(&0) { return "bad-fields".into(); }
            texts.push(Some(os(&subst_root(&b, t.as_os_str().as_bytes()))));
        }
        // every text must lead to the object it stands for (relative ones from the working directory); an object that does
        // not exist (no platform directory, detect's plan file) has nothing to be compared with
        let objects: [&PathBuf; 5] = [&layers, &plat, &plan_file, &bp, &app];
        for (k, tx) in texts.iter().enumerate() {
            let Some(tx) = tx else { continue };
            if k == 4 && !tx.as_bytes().starts_with(b"/") { return "bad-fields".into(); }
            let Ok(want) = std::fs::canonicalize(objects[k]) else { continue };
            if std::fs::canonicalize(app.join(tx)).ok() != Some(want) { return "bad-fields".into(); }
        }
        if let Some(l) = &texts[0] { cmd.arg(l); }
        cmd.arg(texts[1].as_ref().unwrap()).arg(texts[2].as_ref().unwrap());
        cmd.env_clear().current_dir(texts[4].as_ref().unwrap()).stdin(Stdio::null()).stdout(Stdio::null()).stderr(Stdio::null());
        cmd.env("CNB_BUILDPACK_DIR", texts[3].as_ref().unwrap());
    } else {
        if phase == "build" { cmd.args([&layers, &plat, &bpplan]); } else { cmd.args([&plat, &plan_file]); }
        cmd.env_clear().current_dir(&app).stdin(Stdio::null()).stdout(Stdio::null()).stderr(Stdio::null());
        cmd.env("CNB_BUILDPACK_DIR", &bp);
    }
    cmd.env("TBP_OUT", &out).env("TBP_DETECT", "pass").env("TBP_BUILD", "ok:");
    let vnames = ["CNB_TARGET_OS", "CNB_TARGET_ARCH", "CNB_TARGET_ARCH_VARIANT", "CNB_TARGET_DISTRO_NAME", "CNB_TARGET_DISTRO_VERSION"];
    if f.len() >= 11 {
        for kv in split_list(&f[10], ",") {
            let Some((n, v)) = kv.split_once('=') else { return "bad-fields".into() };
            let (Some(n), Some(v)) = (unhex(n), unhex(v)) else { return "bad-fields".into() };
            if n.is_empty() || n.contains(&b'=') || n.contains(&0) || v.contains(&0) || INPUT_VARS.iter().any(|x| x.as_bytes() == n.as_slice()) { return "bad-fields".into(); }
            cmd.env(os(&n), os(&v));
        }
    }
    for (k, v) in f[2].split(',').enumerate() { if v != "-" { cmd.env(vnames[k], os(&unhex(&v[1..]).unwrap())); } }
    let status = cmd.status().unwrap();
    let kinds: Vec<String> = std::fs::read_to_string(out.join("on_error.count")).unwrap_or_default().lines().map(str::to_string).collect();
    let dump = std::fs::read_to_string(out.join("context.dump")).ok();
    match (status.code(), kinds.len(), dump) {
        (Some(0), 0, Some(d)) => {
            // temp root -> $T in the three directory fields (the first place it occurs: `//tmp/x` is `/$T`); nothing else is
            // touched, the text the context reports is kept verbatim
            let root = t.as_os_str().as_bytes();
            let parts: Vec<String> = d.split(';').map(|kv| {
                for key in ["app=", "bp=", "layers="] {
                    if let Some(h) = kv.strip_prefix(key) { if let Some(b) = unhex(h) { if let Some(at) = b.windows(root.len()).position(|w| w == root) { let mut nb = b[..at].to_vec(); nb.extend_from_slice(b"$T"); nb.extend_from_slice(&b[at + root.len()..]); return format!("{key}{}", hex(&nb)); } } }
                }
                kv.to_string()
            }).collect();
            format!("ok;{}", parts.join(";"))
        }
        (Some(1), 1, None) => format!("err:{}", kinds[0]),
        (c, n, d) => format!("weird:exit={c:?},onerr={n},dump={}", d.is_some()),
    }
}

/// puts a document (field 4 / 6 / 8) at `path`: hex = a regular file with these bytes; `raw:<hex>` the same (bytes that do not decode);
/// `lnk:<hex>` a link to such a file in `side`; `dir` a directory; `lnkdir` a link to a directory in `side`; `missing` nothing;
/// `dangling` a link to nothing
fn place_doc(path: &std::path::Path, spec: &str, side: &std::path::Path, tag: &str) -> Option<()> {
    use std::os::unix::fs::symlink;
    match spec {
        "missing" => {}
        "dir" => { std::fs::create_dir(path).ok()?; std::fs::write(path.join("INSIDE"), b"x").ok()?; }
        "lnkdir" => { let d = side.join(format!("docdir-{tag}")); std::fs::create_dir(&d).ok()?; symlink(&d, path).ok()?; }
        "dangling" => symlink(side.join(format!("doc-missing-{tag}")), path).ok()?,
        _ => {
            if let Some(h) = spec.strip_prefix("lnk:") { let tgt = side.join(format!("doc-{tag}")); std::fs::write(&tgt, unhex(h)?).ok()?; symlink(&tgt, path).ok()?; }
            else { std::fs::write(path, unhex(spec.strip_prefix("raw:").unwrap_or(spec))?).ok()?; }
        }
    }
    Some(())
}

/// `$T` -> the temp root (every occurrence)
fn subst_root(text: &[u8], root: &[u8]) -> Vec<u8> {
    let mut o = vec![];
    let mut i = 0;
    while i < text.len() { if text[i..].starts_with(b"$T") { o.extend_from_slice(root); i += 2; } else { o.push(text[i]); i += 1; } }
    o
}

/// what a case with path texts (field 11) finds in its temp root beside the objects themselves; `names` = app, bp, layers
fn scaffold(t: &std::path::Path, names: &[OsString], plan_file: &std::path::Path) -> std::io::Result<()> {
    use std::os::unix::fs::symlink;
    symlink(".", t.join("mnt"))?;                                   // a parent that is a (relative) link
    std::fs::create_dir(t.join("vol"))?;
    symlink(t, t.join("vol").join("0f3a"))?;                        // a parent that is an (absolute) link, one level down
    std::fs::create_dir(t.join("sub"))?;                            // `sub/..`
    std::fs::create_dir_all(t.join("sub2").join("inner"))?;
    symlink("../sub2/inner", t.join("sub").join("up"))?;            // `sub/up/../..`: `..` after a link
    let plan_rel = std::path::Path::new("work").join(plan_file.file_name().unwrap());
    symlink(t.join(&names[0]), t.join("ln-app"))?;                  // the objects themselves behind links
    symlink(&names[1], t.join("ln-bp"))?;
    symlink(t.join(&names[2]), t.join("ln-layers"))?;
    symlink("plat", t.join("ln-plat"))?;
    symlink(&plan_rel, t.join("ln-plan"))?;
    let app = t.join(&names[0]);                                    // and reachable by a bare name from the working directory
    symlink(std::path::Path::new("..").join(&names[1]), app.join("rel-bp"))?;
    symlink(std::path::Path::new("..").join(&names[2]), app.join("rel-layers"))?;
    symlink("../plat", app.join("rel-plat"))?;
    symlink(std::path::Path::new("..").join(&plan_rel), app.join("rel-plan"))?;
    Ok(())
}

// ------------------------------------------------------------------------------------------------- TOML trees
#[derive(Clone, Debug)]
enum TV { S(String), I(i64), B(bool), F(usize), D(usize), A(Vec<TV>), T(Vec<(String, TV)>) }

/// (TOML text, Rust `f64::to_string`) — floats are compared as text
const FLOATS: &[(&str, &str)] = &[("1.5", "1.5"), ("-0.25", "-0.25"), ("3.0", "3"), ("6.02e23", "602000000000000000000000"), ("inf", "inf"), ("-inf", "-inf"), ("nan", "NaN"), ("0.1", "0.1"), ("1e-7", "0.0000001")];
/// datetimes in canonical RFC 3339 spelling (text = `Datetime::to_string`)
const DATES: &[&str] = &["1979-05-27T07:32:00Z", "1979-05-27T00:32:00-07:00", "1979-05-27T07:32:00", "1979-05-27", "07:32:00", "1979-05-27T00:32:00.999999-07:00"];
const STRS: &[&str] = &["", "a", "value", "two words", "line1\nline2\n", "tab\there", "quote\"back\\slash", "it's", "ünï¢ødé", "日本語", "\u{1F980}", "\u{0}\u{1}\u{7f}", "a=b:c,d;e|f", "'''", "\"\"\"", " lead and trail ", "# not a comment", "\r\n"];
const KEYS: &[&str] = &["k", "key", "version", "a-b", "a_b", "1", "with space", "dotted.key", "ü", "", "\"q\"", "Key", "KEY", "name", "metadata", "a\nb", "'"];

fn canon(v: &TV) -> String {
    match v {
        TV::S(s) => format!("s:{}", hex(s.as_bytes())),
        TV::I(i) => format!("i:{i}"),
        TV::B(b) => format!("b:{}", u8::from(*b)),
        TV::F(k) => format!("f:{}", hex(FLOATS[*k].1.as_bytes())),
        TV::D(k) => format!("d:{}", hex(DATES[*k].as_bytes())),
        TV::A(a) => format!("[{}]", a.iter().map(canon).collect::<Vec<_>>().join(",")),
        TV::T(t) => canon_table(t),
    }
}
fn canon_table(t: &[(String, TV)]) -> String {
    let mut kv: Vec<(Vec<u8>, String)> = t.iter().map(|(k, v)| (k.as_bytes().to_vec(), canon(v))).collect();
    kv.sort();
    format!("{{{}}}", kv.iter().map(|(k, v)| format!("{}={}", hex(k), v)).collect::<Vec<_>>().join(","))
}

fn basic_string(s: &str) -> String {
    let mut o = String::from("\"");
    for c in s.chars() {
        match c {
            '"' => o.push_str("\\\""), '\\' => o.push_str("\\\\"), '\n' => o.push_str("\\n"), '\t' => o.push_str("\\t"), '\r' => o.push_str("\\r"),
            c if (c as u32) < 0x20 || c as u32 == 0x7f => o.push_str(&format!("\\u{:04X}", c as u32)),
            c => o.push(c),
        }
    }
    o.push('"');
    o
}
/// one of the TOML spellings of a string (basic, literal, multi-line basic), chosen by `r`
fn emit_string(s: &str, r: &mut Rng) -> String {
    let plain = s.chars().all(|c| (c as u32) >= 0x20 && c as u32 != 0x7f);
    match r.below(4) {
        0 if plain && !s.contains('\'') => format!("'{s}'"),
        1 if s.chars().all(|c| c == '\n' || ((c as u32) >= 0x20 && c as u32 != 0x7f)) && !s.contains('\\') && !s.contains('"') && !s.contains('\r') => format!("\"\"\"\n{s}\"\"\""),
        _ => basic_string(s),
    }
}
fn emit_key(k: &str, r: &mut Rng) -> String {
    let bare = !k.is_empty() && k.bytes().all(|b| b.is_ascii_alphanumeric() || b == b'_' || b == b'-');
    if bare && r.chance(3, 4) { k.to_string() } else { basic_string(k) }
}
fn emit_inline(v: &TV, r: &mut Rng) -> String {
    match v {
        TV::S(s) => emit_string(s, r),
        TV::I(i) => if *i >= 0 && r.chance(1, 8) { format!("+{i}") } else if *i >= 0 && *i < 256 && r.chance(1, 8) { format!("0x{i:X}") } else { i.to_string() },
        TV::B(b) => b.to_string(),
        TV::F(k) => FLOATS[*k].0.to_string(),
        TV::D(k) => DATES[*k].to_string(),
        TV::A(a) => { let nl = r.chance(1, 4) && !a.is_empty(); let items: Vec<String> = a.iter().map(|x| emit_inline(x, r)).collect(); if nl { format!("[\n  {},\n]", items.join(",\n  ")) } else { format!("[{}]", items.join(", ")) } }
        TV::T(t) => format!("{{ {} }}", t.iter().map(|(k, x)| format!("{} = {}", emit_key(k, r), emit_inline(x, r))).collect::<Vec<_>>().join(", ")).replace("{  }", "{}"),
    }
}
/// body of a `[header]` table: one `key = value` line per entry (nested tables inline)
fn emit_body(t: &[(String, TV)], r: &mut Rng) -> String { t.iter().map(|(k, v)| format!("{} = {}\n", emit_key(k, r), emit_inline(v, r))).collect() }

fn gen_tv(r: &mut Rng, depth: u32) -> TV {
    let top = if depth >= 3 { 5 } else { 7 };
    match r.below(top) {
        0 => TV::S(r.pick(STRS).to_string()),
        1 => TV::I(*r.pick(&[0i64, 1, -1, 42, 255, i64::MAX, i64::MIN, 1234567890123])),
        2 => TV::B(r.chance(1, 2)),
        3 => TV::F(r.below(FLOATS.len() as u64) as usize),
        4 => TV::D(r.below(DATES.len() as u64) as usize),
        5 => { let n = r.below(4); TV::A((0..n).map(|_| gen_tv(r, depth + 1)).collect()) }
        _ => TV::T(gen_table(r, depth + 1)),
    }
}
fn gen_table(r: &mut Rng, depth: u32) -> Vec<(String, TV)> {
    let n = if r.chance(1, 6) { 0 } else { 1 + r.below(4) };
    let mut t: Vec<(String, TV)> = vec![];
    for _ in 0..n { let k = r.pick(KEYS).to_string(); if !t.iter().any(|(x, _)| *x == k) { t.push((k, gen_tv(r, depth))); } }
    t
}

/// `key = { … }` (inline) or a `[header]` section; returns (lines to put before any header, section text)
fn emit_table_at(key_path: &str, t: &[(String, TV)], r: &mut Rng) -> String {
    if r.chance(1, 3) { format!("{} = {}\n", key_path.rsplit('.').next().unwrap(), emit_inline(&TV::T(t.to_vec()), r)) } else { format!("[{key_path}]\n{}", emit_body(t, r)) }
}

fn opt_s(o: &Option<String>) -> String { match o { None => "none".into(), Some(s) => format!("s:{}", hex(s.as_bytes())) } }
fn opt_str(r: &mut Rng) -> Option<String> { if r.chance(1, 2) { Some(r.pick(STRS).to_string()) } else { None } }

// ------------------------------------------------------------------------------------------------- documents as data
fn tv_value(v: &TV) -> toml::Value {
    use toml::Value;
    match v {
        TV::S(s) => Value::String(s.clone()), TV::I(i) => Value::Integer(*i), TV::B(b) => Value::Boolean(*b),
        TV::F(k) => toml::from_str::<toml::Table>(&format!("x = {}", FLOATS[*k].0)).unwrap()["x"].clone(),
        TV::D(k) => Value::Datetime(DATES[*k].parse().unwrap()),
        TV::A(a) => Value::Array(a.iter().map(tv_value).collect()),
        TV::T(t) => Value::Table(tv_table(t)),
    }
}
fn tv_table(t: &[(String, TV)]) -> toml::Table { let mut o = toml::Table::new(); for (k, v) in t { o.insert(k.clone(), tv_value(v)); } o }
fn vs(x: &str) -> toml::Value { toml::Value::String(x.to_string()) }

/// buildpack plan entries: (name, metadata; `None` = the key is left out)
type PlanData = Vec<(String, Option<Vec<(String, TV)>>)>;
fn plan_expected(p: &PlanData) -> String { format!("[{}]", p.iter().map(|(n, m)| format!("{}~{}", hex(n.as_bytes()), canon_table(m.as_deref().unwrap_or(&[])))).collect::<Vec<_>>().join(",")) }
fn plan_value(p: &PlanData, explicit_empty: bool) -> toml::Table {
    let mut doc = toml::Table::new();
    if !p.is_empty() || explicit_empty {
        doc.insert("entries".into(), toml::Value::Array(p.iter().map(|(n, m)| { let mut e = toml::Table::new(); e.insert("name".into(), vs(n)); if let Some(m) = m { e.insert("metadata".into(), toml::Value::Table(tv_table(m))); } toml::Value::Table(e) }).collect()));
    }
    doc
}
fn draw_plan(r: &mut Rng) -> PlanData {
    let n = if r.chance(1, 5) { 0 } else { 1 + r.below(3) as usize };
    (0..n).map(|_| { let name = r.pick(STRS).to_string(); let md = gen_table(r, 1); (name, if md.is_empty() && r.chance(1, 2) { None } else { Some(md) }) }).collect()
}
fn plan_text(p: &PlanData, r: &mut Rng) -> String {
    let mut text = String::new();
    if p.is_empty() && r.chance(1, 2) { text.push_str("entries = []\n"); }
    for (name, md) in p {
        text.push_str(&format!("[[entries]]\nname = {}\n", emit_string(name, r)));
        match md {
            None => {}
            Some(md) => if r.chance(1, 2) { text.push_str(&format!("metadata = {}\n", emit_inline(&TV::T(md.clone()), r))); } else { text.push_str(&format!("[entries.metadata]\n{}", emit_body(md, r))); }
        }
    }
    text
}
/// buildpack plan: (TOML, expected, number of entries)
fn gen_plan(r: &mut Rng) -> (String, String, usize) { let p = draw_plan(r); (plan_text(&p, r), plan_expected(&p), p.len()) }
fn gen_store(r: &mut Rng) -> (String, String) {
    let md = gen_table(r, 1);
    (emit_table_at("metadata", &md, r), canon_table(&md))
}

struct Desc {
    id: String, version: String, name: Option<String>, homepage: Option<String>, description: Option<String>, clear_env: Option<bool>,
    keywords: Vec<String>, keywords_key: bool, licenses: Vec<(Option<String>, Option<String>)>, sbom: Vec<usize>, sbom_key: bool,
    stacks: Vec<(String, Vec<String>, bool)>, targets: Vec<(Option<String>, Option<String>, Option<String>, Vec<(String, String)>)>, metadata: Option<Vec<(String, TV)>>,
}
const SBOM_FM: [(&str, &str); 3] = [("application/vnd.cyclonedx+json", "cdx"), ("application/spdx+json", "spdx"), ("application/vnd.syft+json", "syft")];
fn draw_desc(r: &mut Rng) -> Desc {
    let id = r.pick(&["tbp/c06", "a", "x.y/z-1", "heroku/ruby", "App", "config.d", "Sbom", "0", "A/B/C", "build"]).to_string();
    let version = r.pick(&["0.0.1", "1.2.3", "10.20.30", "0.0.0", "18446744073709551615.0.1"]).to_string();
    let (name, homepage, description) = (opt_str(r), opt_str(r), opt_str(r));
    let clear_env: Option<bool> = *r.pick(&[None, Some(true), Some(false)]);
    let keywords: Vec<String> = (0..r.below(3)).map(|_| r.pick(STRS).to_string()).collect();
    let licenses: Vec<(Option<String>, Option<String>)> = (0..r.below(3)).map(|_| (opt_str(r), opt_str(r))).collect();
    let sbom: Vec<usize> = (0..r.below(4)).map(|_| r.below(3) as usize).collect();
    let stacks: Vec<(String, Vec<String>, bool)> = (0..r.below(3)).map(|_| (r.pick(&["*", "heroku-24", "io.buildpacks.stacks.jammy", "ü"]).to_string(), (0..r.below(3)).map(|_| r.pick(&["build:jq", "wget", "run:x y"]).to_string()).collect(), r.chance(1, 3))).collect();
    let targets = (0..r.below(3)).map(|_| (opt_str(r), opt_str(r), opt_str(r), (0..r.below(3)).map(|_| (r.pick(&["ubuntu", "alpine", ""]).to_string(), r.pick(&["24.04", "3.19", "ü"]).to_string())).collect())).collect();
    let metadata: Option<Vec<(String, TV)>> = if r.chance(1, 5) { None } else { Some(gen_table(r, 1)) };
    Desc { id, version, name, homepage, description, clear_env, keywords, keywords_key: r.chance(1, 3), licenses, sbom, sbom_key: r.chance(1, 3), stacks, targets, metadata }
}
fn desc_text(d: &Desc, r: &mut Rng) -> String {
    let mut t = String::from("api = \"0.10\"\n");
    let md_inline_first = d.metadata.is_some() && r.chance(1, 4);
    if md_inline_first { t.push_str(&format!("metadata = {}\n", emit_inline(&TV::T(d.metadata.clone().unwrap()), r))); }
    t.push_str(&format!("\n[buildpack]\nid = \"{}\"\nversion = \"{}\"\n", d.id, d.version));
    if let Some(s) = &d.name { t.push_str(&format!("name = {}\n", emit_string(s, r))); }
    if let Some(s) = &d.homepage { t.push_str(&format!("homepage = {}\n", emit_string(s, r))); }
    if let Some(b) = d.clear_env { t.push_str(&format!("clear-env = {b}\n")); }
    if let Some(s) = &d.description { t.push_str(&format!("description = {}\n", emit_string(s, r))); }
    if !d.keywords.is_empty() || d.keywords_key { t.push_str(&format!("keywords = {}\n", emit_inline(&TV::A(d.keywords.iter().map(|k| TV::S(k.clone())).collect()), r))); }
    if !d.sbom.is_empty() || d.sbom_key { t.push_str(&format!("sbom-formats = [{}]\n", d.sbom.iter().map(|k| format!("\"{}\"", SBOM_FM[*k].0)).collect::<Vec<_>>().join(", "))); }
    for (ty, uri) in &d.licenses {
        t.push_str("[[buildpack.licenses]]\n");
        if let Some(s) = ty { t.push_str(&format!("type = {}\n", emit_string(s, r))); }
        if let Some(s) = uri { t.push_str(&format!("uri = {}\n", emit_string(s, r))); }
    }
    for (sid, mixins, key) in &d.stacks {
        t.push_str(&format!("[[stacks]]\nid = {}\n", emit_string(sid, r)));
        if !mixins.is_empty() || *key { t.push_str(&format!("mixins = [{}]\n", mixins.iter().map(|m| basic_string(m)).collect::<Vec<_>>().join(", "))); }
    }
    for (o, a, v, distros) in &d.targets {
        t.push_str("[[targets]]\n");
        if let Some(s) = o { t.push_str(&format!("os = {}\n", emit_string(s, r))); }
        if let Some(s) = a { t.push_str(&format!("arch = {}\n", emit_string(s, r))); }
        if let Some(s) = v { t.push_str(&format!("variant = {}\n", emit_string(s, r))); }
        for (n, ver) in distros { t.push_str(&format!("[[targets.distros]]\nname = {}\nversion = {}\n", emit_string(n, r), emit_string(ver, r))); }
    }
    if let (Some(md), false) = (&d.metadata, md_inline_first) { t.push_str(&format!("[metadata]\n{}", emit_body(md, r))); }
    t
}
fn desc_value(d: &Desc) -> toml::Table {
    use toml::Value;
    let strs = |xs: &[String]| Value::Array(xs.iter().map(|x| vs(x)).collect());
    let mut b = toml::Table::new();
    b.insert("id".into(), vs(&d.id)); b.insert("version".into(), vs(&d.version));
    for (k, v) in [("name", &d.name), ("homepage", &d.homepage), ("description", &d.description)] { if let Some(x) = v { b.insert(k.into(), vs(x)); } }
    if let Some(c) = d.clear_env { b.insert("clear-env".into(), Value::Boolean(c)); }
    if !d.keywords.is_empty() || d.keywords_key { b.insert("keywords".into(), strs(&d.keywords)); }
    if !d.sbom.is_empty() || d.sbom_key { b.insert("sbom-formats".into(), Value::Array(d.sbom.iter().map(|k| vs(SBOM_FM[*k].0)).collect())); }
    if !d.licenses.is_empty() { b.insert("licenses".into(), Value::Array(d.licenses.iter().map(|(ty, uri)| { let mut l = toml::Table::new(); if let Some(x) = ty { l.insert("type".into(), vs(x)); } if let Some(x) = uri { l.insert("uri".into(), vs(x)); } Value::Table(l) }).collect())); }
    let mut doc = toml::Table::new();
    doc.insert("api".into(), vs("0.10"));
    doc.insert("buildpack".into(), Value::Table(b));
    if !d.stacks.is_empty() { doc.insert("stacks".into(), Value::Array(d.stacks.iter().map(|(id, mixins, key)| { let mut s = toml::Table::new(); s.insert("id".into(), vs(id)); if !mixins.is_empty() || *key { s.insert("mixins".into(), strs(mixins)); } Value::Table(s) }).collect())); }
    if !d.targets.is_empty() { doc.insert("targets".into(), Value::Array(d.targets.iter().map(|(o, a, v, distros)| {
        let mut t = toml::Table::new();
        for (k, x) in [("os", o), ("arch", a), ("variant", v)] { if let Some(x) = x { t.insert(k.into(), vs(x)); } }
        if !distros.is_empty() { t.insert("distros".into(), Value::Array(distros.iter().map(|(n, ver)| { let mut dd = toml::Table::new(); dd.insert("name".into(), vs(n)); dd.insert("version".into(), vs(ver)); Value::Table(dd) }).collect())); }
        Value::Table(t) }).collect())); }
    if let Some(m) = &d.metadata { doc.insert("metadata".into(), Value::Table(tv_table(m))); }
    doc
}
fn desc_expected(d: &Desc) -> String {
    let mut sf: Vec<&str> = d.sbom.iter().map(|k| SBOM_FM[*k].1).collect();
    sf.sort(); sf.dedup();
    format!("api:0.10|id:{}|name:{}|version:{}|homepage:{}|clearenv:{}|description:{}|keywords:[{}]|licenses:[{}]|sbomformats:[{}]|stacks:[{}]|targets:[{}]|metadata:{}",
        hex(d.id.as_bytes()), opt_s(&d.name), hex(d.version.as_bytes()), opt_s(&d.homepage), u8::from(d.clear_env == Some(true)), opt_s(&d.description),
        d.keywords.iter().map(|k| hex(k.as_bytes())).collect::<Vec<_>>().join(","),
        d.licenses.iter().map(|(a, b)| format!("{}/{}", opt_s(a), opt_s(b))).collect::<Vec<_>>().join(","), sf.join(","),
        d.stacks.iter().map(|(s, m, _)| format!("{}/{}", hex(s.as_bytes()), m.iter().map(|x| hex(x.as_bytes())).collect::<Vec<_>>().join("+"))).collect::<Vec<_>>().join(","),
        d.targets.iter().map(|(o, a, v, dd)| format!("{}/{}/{}/{}", opt_s(o), opt_s(a), opt_s(v), dd.iter().map(|(n, x)| format!("{}@{}", hex(n.as_bytes()), hex(x.as_bytes()))).collect::<Vec<_>>().join("+"))).collect::<Vec<_>>().join(","),
        match &d.metadata { None => "none".to_string(), Some(m) => canon_table(m) })
}
fn gen_desc(r: &mut Rng) -> (String, String, bool) {
    let d = draw_desc(r);
    (desc_text(&d, r), desc_expected(&d), d.metadata.as_ref().is_some_and(|m| !m.is_empty()))
}

// ------------------------------------------------------------------------------------------------- platform / target
const NAMES: &[&[u8]] = &[b"FOO", b"A_B", b"PATH", b"a.b", b".hidden", b"my var", b"V\xc3\x84R", b"\xe5\xa4\x89\xe6\x95\xb0", b"A=B", b"x.append", b"lower", b"UPPER.default", b"a\nb", b"*", b"-dash", b"\xffraw", b"\xc3", b"trailing ", b"...",
    // value pool added by the generator audit: percent / plus / leading and trailing dots and blanks / k8s-style dotted names / line ends / BOM /
    // control characters / case variants / look-alikes / composed and decomposed / names of inputs and of well-known variables / shell syntax
    b"%", b"FOO%20BAR", b"A+B", b"+", b" leading", b"trailing.", b".leading", b"..data", b"..2024_01_01_00_00_00.123456789", b"....", b"FOO\n", b"FOO\r", b"FOO\r\n", b"\xef\xbb\xbfFOO", b"FOO\xef\xbb\xbf", b"\x01", b"\x7f", b"\x1b[0m",
    b"foo", b"Foo", b"fOO", b"Path", b"path", b"\xef\xbc\xa6\xef\xbc\xaf\xef\xbc\xaf", b"e\xcc\x81", b"\xc3\xa9", b"CNB_TARGET_OS", b"CNB_TARGET_ARCH_VARIANT", b"CNB_BUILDPACK_DIR", b"CNB_STACK_ID", b"HOME", b"LD_PRELOAD", b"BP_", b"_", b"-", b"--help", b"~", b"$X",
    b"${X}", b"a:b", b"a,b", b"a;b", b"'q'", b"\"q\"", b"\\", b"a\\b", b"#", b"!", b"0", b"1VAR", b"\xe2\x80\xae", b"\xe2\x80\x8b", b"LEGACY_\xe9_PATH", b"\xfe", b"\xed\xa0\x80", b"f0", b"f1", b"INSIDE", b"env", b"\xf0\x9f\xa6\x80", b"A B\tC"];
const GOOD: &[&[u8]] = &[b"", b"value", b"a\nb\n", b"trailing newline\n", b"\n", b"\xc3\xbc\xe2\x82\xac", b"\xed\x9f\xbf", b"\xf4\x8f\xbf\xbf", b"\xe0\xa0\x80", b"\xf0\x90\x80\x80", b"\x00", b"/bin:/usr/bin", b"with \"quotes\" and \\", b"\xef\xbb\xbfbom",
    // added: CR / CRLF in every position, BOM alone / twice / inside / at the end, control characters, padding, shell and TOML syntax, realistic multi-line values
    b"value\r\n", b"value\r", b"\r\n", b"\r", b"\r\nvalue", b"a\r\nb\r\n", b"a\n\nb\n\n", b"\xef\xbb\xbf", b"\xef\xbb\xbf\xef\xbb\xbfx", b"x\xef\xbb\xbfy", b"x\xef\xbb\xbf", b"\xef\xbb\xbf\n", b" value ", b"\tvalue\t", b"  ", b"\t", b"value\n\n\n",
    b"\x1b[31mred\x1b[0m", b"\x07\x08\x0b\x0c", b"\x7f", b"\x1a", b"\xc2\x85", b"\xe2\x80\xa8line\xe2\x80\xa9", b"a\x00b", b"\x00\x00", b"\x00\n", b"=", b"A=B", b"'single'", b"$HOME", b"${X:-y}", b"%PATH%", b"~", b"`id`", b"$(id)", b"true", b"false", b"0", b"-1", b"null",
    b"{\"json\": [1, 2]}", b"key = \"toml\"\n[table]\n", b"-----BEGIN CERTIFICATE-----\nMIIB\n-----END CERTIFICATE-----\n", b"e\xcc\x81", b"\xc3\xa9", b"\xef\xbc\xa1", b"\xf0\x9f\xa6\x80", b"\xe2\x80\xaertl", b"\xef\xbf\xbd", b"\xef\xbf\xbf", b"\xee\x80\x80"];
const BAD: &[&[u8]] = &[b"\xff", b"ab\xc3", b"\xc0\x80", b"\xed\xa0\x80", b"\xf4\x90\x80\x80", b"\x80", b"ok\xfe\xffend", b"\xe2\x82", b"\xf5\x80\x80\x80", b"\xc1\xbf", b"\xe0\x9f\xbf", b"\xf0\x8f\xbf\xbf",
    // added: truncated BOM, BOM then invalid, UTF-16 with BOM, Latin-1, lone continuation after valid text, invalid after a NUL / a newline / CRLF
    b"\xef\xbb", b"\xef\xbb\xbf\xff", b"\xff\xfev\x00a\x00l\x00", b"\xfe\xff\x00v", b"caf\xe9", b"\xa0", b"valid then \x80", b"\x00\xff", b"line\n\xff", b"line\r\n\xc3", b"\xed\xbf\xbf", b"\xf8\x88\x80\x80\x80"];

const TARGET_POOL: [&[&[u8]]; 5] = [
    &[b"linux", b"windows", b"", b"\xc3\xbc", b"darwin", b"freebsd", b"Linux", b"LINUX", b"Windows", b"WINDOWS", b" linux", b"linux ", b"linux\n", b"linux\r\n", b"*", b"any", b"l\xc4\xb1nux", b"\xef\xbd\x8c\xef\xbd\x89\xef\xbd\x8e\xef\xbd\x95\xef\xbd\x98", b"\xef\xbb\xbflinux", b"win32", b"wasi", b"linux/amd64", b"0", b"true"],
    &[b"amd64", b"arm64", b"a b", b"arm", b"386", b"x86_64", b"aarch64", b"ppc64le", b"s390x", b"riscv64", b"mips64le", b"loong64", b"wasm", b"AMD64", b"Arm64", b"", b"*", b"amd64\n", b" arm64", b"\xc3\xa4md64"],
    &[b"v8", b"v7", b"", b"v6", b"v5", b"V8", b"v8.2", b"v1", b"v2", b"v3", b"v4", b"8", b"*", b" v8", b"v8\n", b"\xc2\xb5"],
    &[b"ubuntu", b"alpine", b"", b"dist\nro", b"debian", b"Ubuntu", b"UBUNTU", b"rhel", b"red hat", b"centos", b"fedora", b"amzn", b"bionic", b"windows", b"*", b" ubuntu", b"ubuntu ", b"\xe2\x98\x83"],
    &[b"24.04", b"3.19", b"", b"22.04", b"20.04", b"18.04", b"3.19.1", b"edge", b"12", b"bookworm", b"rolling", b"10.0.20348.1970", b"24.04 ", b" 24.04", b"24.04\n", b"\xd9\xa2\xd9\xa4", b"*", b"0", b"v3"],
];

fn is_utf8(b: &[u8]) -> bool { std::str::from_utf8(b).is_ok() }
fn var_field(vars: &[Option<Vec<u8>>]) -> String { vars.iter().map(|v| match v { None => "-".to_string(), Some(b) => format!("{}{}", if is_utf8(b) { 'u' } else { 'n' }, hex(b)) }).collect::<Vec<_>>().join(",") }
fn entry(name: &[u8], kind: &str, content: &[u8]) -> String { format!("{}:{}:{}", hex(name), kind, hex(content)) }
fn entry_sib(name: &[u8], kind: &str, content: &[u8], sib: &[u8]) -> String { format!("{}:{}:{}:{}", hex(name), kind, hex(content), hex(sib)) }
const VAR_KINDS: &[&str] = &["f", "lf", "lr", "l2", "hf"];
fn holds_var(kind: &str) -> bool { VAR_KINDS.contains(&kind) || kind == "ls" || kind == "hs" }

fn gen_case(r: &mut Rng, kind: &str, force: Option<&str>) -> Case { gen_case_phase(r, kind, force, None) }

fn gen_case_phase(r: &mut Rng, kind: &str, force: Option<&str>, phase: Option<&'static str>) -> Case {
    let phase = phase.unwrap_or(if r.chance(1, 2) { "build" } else { "detect" });
    let mut dirs = format!("{}/{}/{}", hex(r.pick(&["a-app", "a-my app", "a-\u{fc}", "a-app.d"]).as_bytes()), hex(r.pick(&["b-bp", "b-build pack", "b-\u{65e5}"]).as_bytes()), hex(r.pick(&["l-layers", "l-lay ers"]).as_bytes()));
    // target variables: the first three / two values of each pool are the common ones, the rest come in one case in three
    let wide = r.chance(1, 3);
    let mut vars: Vec<Option<Vec<u8>>> = (0..5).map(|k| Some(if wide { r.pick(TARGET_POOL[k]).to_vec() } else { r.pick(&TARGET_POOL[k][..3]).to_vec() })).collect();
    if r.chance(1, 2) { vars[2] = None; }
    let mandatory = [0usize, 1, 3, 4];
    let tclass = match force.unwrap_or(*r.pick(&["ok", "ok", "ok", "ok", "ok", "ok", "ok", "ok", "ok", "ok", "ok", "ok", "ok", "ok", "ok", "ok", "missing", "missing", "nonutf8", "d7", "mix"])) {
        "missing" => { vars[*r.pick(&mandatory)] = None; "missing" }
        "nonutf8" => { vars[*r.pick(&mandatory)] = Some(r.pick(&[&b"\xff\xfe"[..], b"lin\xc3", b"\xed\xa0\x80", b"linux\xff", b"\xc0\xaf", b"caf\xe9"]).to_vec()); "nonutf8" }
        "d7" => { vars[2] = Some(r.pick(&[&b"\xff"[..], b"v\xc3", b"\xc0\x80", b"v8\xfe"]).to_vec()); "d7" }
        "mix" => { for k in 0..5 { match r.below(6) { 0 => vars[k] = None, 1 => vars[k] = Some(b"\xffx".to_vec()), _ => {} } } "mix" }
        _ => "ok",
    };
    let vfield = var_field(&vars);
    // platform dir
    let mut nbad = 0;
    let mut kinds_seen = std::collections::BTreeSet::new();
    let mut nvars = 0;
    let pfield = match r.below(24) {
        0 => "noplat".to_string(),
        1 => "noenv".to_string(),
        2 => "notdir".to_string(),
        3 => if r.chance(1, 2) { "envdangling".to_string() } else { "envlinkfile".to_string() },
        _ => {
            let n = if r.chance(1, 10) { 0 } else { 1 + r.below(7) as usize };
            let mut names: Vec<Vec<u8>> = vec![];
            let mut es = vec![];
            let mut plain: Vec<(Vec<u8>, Vec<u8>)> = vec![]; // kind-f entries so far (name, content): what ls / hs may alias
            let bad_rate = if r.chance(1, 8) { 3 } else { 0 }; // a minority of platform dirs hold a non-UTF-8 file
            for _ in 0..n {
                let mut nm = r.pick(NAMES).to_vec();
                if r.chance(1, 6) { nm.extend_from_slice(format!("_{}", r.below(100)).as_bytes()); }
                if names.contains(&nm) { continue; }
                names.push(nm.clone());
                let k = *r.pick(&["f", "f", "f", "f", "f", "f", "d", "de", "lf", "lf", "lr", "l2", "hf", "ls", "hs", "ld", "ld2", "dl", "lo"]);
                if (k == "ls" || k == "hs") && !plain.is_empty() {
                    let (sn, sc) = r.pick(&plain).clone();
                    nvars += 1; if !is_utf8(&sc) { nbad += 1; }
                    kinds_seen.insert(k);
                    es.push(entry_sib(&nm, k, &sc, &sn));
                    continue;
                }
                let k = if k == "ls" || k == "hs" { "f" } else { k };
                let content: Vec<u8> = if holds_var(k) {
                    nvars += 1;
                    if r.below(10) < bad_rate { nbad += 1; r.pick(BAD).to_vec() } else if r.chance(1, 30) { vec![b'x'; 20000] } else { r.pick(GOOD).to_vec() }
                } else { vec![] };
                if k == "f" { plain.push((nm.clone(), content.clone())); }
                kinds_seen.insert(k);
                es.push(entry(&nm, k, &content));
            }
            if r.chance(1, 8) { dirs.push_str(*r.pick(&["/e", "/p", "/ep"])); }
            join(",", &es)
        }
    };
    let pclass = match pfield.as_str() { "noplat" | "noenv" | "notdir" | "envdangling" | "envlinkfile" => pfield.clone(), "-" => "empty".into(), _ => "entries".into() };
    let (ptext, pexp, nplan) = gen_plan(r);
    let has_store = r.chance(2, 3);
    let (stext, sexp) = gen_store(r);
    let (dtext, dexp, has_md) = gen_desc(r);
    let build = phase == "build";
    let fields = vec![phase.to_string(), dirs, vfield, pfield,
        if build { hex(ptext.as_bytes()) } else { "-".into() }, if build { pexp } else { "-".into() },
        if !build { "-".into() } else if has_store { hex(stext.as_bytes()) } else { "none".into() }, if !build { "-".into() } else if has_store { sexp } else { "none".into() },
        hex(dtext.as_bytes()), dexp];
    let unrep = nbad > 0 || matches!(tclass, "nonutf8" | "d7" | "mix");
    Case { fields, tags: vec![("kind".into(), kind.into()), ("phase".into(), phase.into()), ("target".into(), tclass.into()), ("plat".into(), pclass), ("entrykinds".into(), kinds_seen.iter().cloned().collect::<Vec<_>>().join("+")),
        ("nvars".into(), nvars.min(5).to_string()), ("badfiles".into(), nbad.min(2).to_string()), ("plan".into(), if build { nplan.to_string() } else { "-".into() }), ("store".into(), if build { u8::from(has_store).to_string() } else { "-".into() }), ("descmd".into(), u8::from(has_md).to_string())],
        nontrivial: !kinds_seen.is_empty() || unrep }
}

// ------------------------------------------------------------------------------------------------- directed families
/// a base case (all target variables valid, nothing unrepresentable) whose named input a directed family then replaces
fn base_case(r: &mut Rng, family: &str, phase: Option<&'static str>) -> Case {
    let mut c = gen_case_phase(r, family, Some("ok"), phase);
    // the base listing must not hold an invalid file (the family decides what is unrepresentable)
    if c.tags.iter().any(|(k, v)| k == "badfiles" && v != "0") { c.fields[3] = entry(b"BASE", "f", b"v"); }
    c.tags.retain(|(k, _)| k == "kind" || k == "phase");
    c.nontrivial = true;
    c
}
fn with_listing(r: &mut Rng, family: &str, sub: &str, listing: Vec<String>, flags: &str) -> Case {
    let mut c = base_case(r, family, None);
    c.fields[3] = join(",", &listing);
    let d: Vec<&str> = c.fields[1].split('/').collect();
    c.fields[1] = if flags.is_empty() { d[..3].join("/") } else { format!("{}/{flags}", d[..3].join("/")) };
    c.tags.push(("sub".into(), sub.into()));
    c.tags.push(("n".into(), listing.len().to_string()));
    c
}
fn filler(n: usize, byte: u8) -> Vec<u8> { vec![byte; n] }
/// `n` bytes of 3-byte characters after `pad` ASCII bytes: some character straddles every power-of-two boundary for a suitable pad
fn multibyte(n: usize, pad: usize) -> Vec<u8> { let mut v = vec![b'a'; pad.min(n)]; while v.len() + 3 <= n { v.extend_from_slice("\u{20ac}".as_bytes()); } while v.len() < n { v.push(b'z'); } v }

fn wide_table(n: usize) -> Vec<(String, TV)> { (0..n).map(|i| (format!("key-{i:05}"), if i % 3 == 0 { TV::I(i as i64) } else { TV::S(format!("v{i}")) })).collect() }
fn deep_table(depth: usize) -> Vec<(String, TV)> {
    let mut v = TV::T(vec![("leaf".into(), TV::I(1))]);
    for i in 0..depth { v = if i % 4 == 3 { TV::T(vec![("list".into(), TV::A(vec![v, TV::I(i as i64)]))]) } else { TV::T(vec![("t".into(), v)]) }; }
    vec![("deep".into(), v)]
}


// ------------------------------------------------------------------------------------------------- path texts (field 11)
/// the five paths the platform hands over, in the order of field 11
const PATH_KEYS: [&str; 5] = ["layers", "plat", "plan", "bp", "cwd"];

/// every spelling of one path: (tag, text). `n` = the object's place below the temp root (`l-layers`, `plat`, `work/bpplan.toml`, …),
/// `which` = its position in `PATH_KEYS`, `app` = the name of the app directory (= the working directory, what relative texts start
/// from). A directory takes the trailing-slash / trailing-dot spellings, the plan file does not; the working directory has to be
/// entered by an absolute path, so it takes no relative spelling.
fn spellings(which: usize, n: &str, app: &str) -> Vec<(&'static str, String)> {
    let ln = ["ln-layers", "ln-plat", "ln-plan", "ln-bp", "ln-app"][which];
    let rel = ["rel-layers", "rel-plat", "rel-plan", "rel-bp", ""][which];
    let dir = which != 2;
    let mut v: Vec<(&'static str, String)> = vec![
        ("plain", format!("$T/{n}")),
        ("symparent", format!("$T/mnt/{n}")),                       // <root>/mnt -> . : a parent of the path is a link
        ("symparent-abs", format!("$T/vol/0f3a/{n}")),              // <root>/vol/0f3a -> <root>
        ("symparent-chain", format!("$T/mnt/mnt/vol/0f3a/{n}")),
        ("selflink", format!("$T/{ln}")),                           // the object itself is a link
        ("selflink-symparent", format!("$T/vol/0f3a/{ln}")),
        ("dot", format!("$T/./{n}")),
        ("dotdot", format!("$T/sub/../{n}")),
        ("dotdot-after-link", format!("$T/sub/up/../../{n}")),      // `..` taken from the link's target
        ("dslash", format!("$T//{n}")),
        ("dslash-lead", format!("/$T/{n}")),
        ("dot-dslash-symparent", format!("$T/.//mnt/./{n}")),
    ];
    if dir {
        v.extend([("tslash", format!("$T/{n}/")), ("tslash2", format!("$T/{n}//")), ("tdot", format!("$T/{n}/.")), ("dotdot-self", format!("$T/{n}/../{n}")),
            ("selflink-tslash", format!("$T/{ln}/")), ("symparent-dotdot-tslash", format!("$T/mnt/sub/../{ln}/"))]);
    }
    if which != 4 {
        v.extend([("rel-up", format!("../{n}")), ("rel-dot-up", format!("./../{n}")), ("rel-up-symparent", format!("../mnt/{n}")), ("rel-up-dslash", format!("..//{n}")),
            ("rel-up-selflink", format!("../{ln}")), ("rel-name", rel.to_string()), ("rel-dot-name", format!("./{rel}")), ("rel-through-cwd", format!("../{app}/../{n}")),
            ("rel-up-up", format!("../sub/../{n}"))]);
        if dir { v.extend([("rel-up-tslash", format!("../{n}/")), ("rel-dot-name-tslash", format!("./{rel}/")), ("rel-name-tdot", format!("{rel}/."))]); }
    }
    v
}

/// names of the case's objects below the temp root, in the order of `PATH_KEYS`
fn object_names(c: &Case) -> [String; 5] {
    let d: Vec<String> = c.fields[1].split('/').take(3).map(|h| String::from_utf8(unhex(h).unwrap()).unwrap()).collect();
    [d[2].clone(), "plat".into(), if c.fields[0] == "build" { "work/bpplan.toml".into() } else { "work/plan.toml".into() }, d[1].clone(), d[0].clone()]
}

/// gives the case field 11: path number k is written in its spelling number `choice[k]` (modulo the number it has)
fn set_spellings(c: &mut Case, choice: [usize; 5]) {
    let names = object_names(c);
    let mut texts = vec![];
    let mut odd = 0;
    for k in 0..5 {
        if k == 0 && c.fields[0] == "detect" { texts.push("-".to_string()); continue; }
        let sp = spellings(k, &names[k], &names[4]);
        let (tag, text) = &sp[choice[k] % sp.len()];
        if *tag != "plain" { odd += 1; }
        c.tags.push((format!("sp_{}", PATH_KEYS[k]), tag.to_string()));
        texts.push(hex(text.as_bytes()));
    }
    while c.fields.len() < 11 { c.fields.push("-".into()); }
    c.fields.truncate(11);
    c.fields.push(texts.join("/"));
    c.tags.push(("spelled".into(), odd.to_string()));
    if odd > 0 { c.nontrivial = true; }
}

/// (12) the spelling of every path the platform hands over
fn directed_paths(tier: &str, seed: u64, emit: &mut dyn FnMut(Case)) {
    let thorough = tier == "thorough";
    let mut idx = 0u64;
    let mut rng = |salt: u64| { idx += 1; Rng::for_case(seed ^ salt, 0x9A7500 + idx) };
    let most = spellings(0, "x", "a").len();
    for phase in ["build", "detect"] {
        // every spelling of one path, the other four plain; then all five in the same spelling
        for k in 0..5 {
            if k == 0 && phase == "detect" { continue; }
            for j in 1..spellings(k, "x", "a").len() {
                let mut r = rng(0x9A71);
                let mut c = base_case(&mut r, "paths", Some(phase));
                let mut ch = [0usize; 5]; ch[k] = j;
                set_spellings(&mut c, ch);
                c.tags.push(("sub".into(), format!("one-{}", PATH_KEYS[k])));
                emit(c);
            }
        }
        for j in 0..most {
            let mut r = rng(0x9A72);
            let mut c = base_case(&mut r, "paths", Some(phase));
            // a spelling a path does not have (relative for the working directory, trailing slash for the plan file) = plain
            let names = object_names(&c);
            let tag = spellings(0, &names[0], &names[4])[j].0;
            let mut ch = [0usize; 5];
            for k in 0..5 { ch[k] = spellings(k, &names[k], &names[4]).iter().position(|(t, _)| *t == tag).unwrap_or(0); }
            set_spellings(&mut c, ch);
            c.tags.push(("sub".into(), "all-same".into()));
            emit(c);
        }
    }
    // the platform directory's states and link placements x its spellings (the directory is not in the context: a spelling must not
    // change what is read from it)
    for p in ["noplat", "noenv", "notdir", "envdangling", "envlinkfile", "-", "listing"] { for flags in ["", "p", "e", "ep"] { for round in 0..2 {
        let mut r = rng(0x9A73);
        let mut c = with_listing(&mut r, "paths", "platstate", vec![entry(b"FOO", "f", b"bar"), entry(b"LINKED", "lr", b"v\n"), entry(b"DIR", "d", b"")], flags);
        if p != "listing" { c.fields[3] = p.to_string(); }
        let j = 1 + r.below(64) as usize;
        set_spellings(&mut c, [if round == 0 { 0 } else { r.below(64) as usize }, j, 0, 0, 0]);
        emit(c);
    } } }
    // a PWD / OLDPWD left in the process environment that names the directory differently (or names another one): the app directory
    // is the working directory, not what a variable says
    for pwd in [&b"$T/mnt/a-app"[..], b"/", b"/nonexistent", b".", b""] { for phase in ["build", "detect"] {
        let mut r = rng(0x9A74);
        let mut c = base_case(&mut r, "paths", Some(phase));
        set_spellings(&mut c, [r.below(64) as usize, r.below(64) as usize, r.below(64) as usize, r.below(64) as usize, 1 + r.below(17) as usize]);
        c.fields[10] = format!("{}={},{}={}", hex(b"PWD"), hex(pwd), hex(b"OLDPWD"), hex(b"/tmp"));
        c.tags.push(("sub".into(), "pwd".into()));
        emit(c);
    } }
    // NOT in the default stream (open question, see propcfg `rule`): a directory name that is not UTF-8. As `<layers>` argument it makes
    // `std::env::args()` panic (exit 101), as CNB_BUILDPACK_DIR it ends the process with exit 254 before any context exists; neither goes
    // through `on_error`. Only with VERIF_C06_NONUTF8_PATHS set.
    if std::env::var("VERIF_C06_NONUTF8_PATHS").is_ok() {
        for which in 0..3 { for phase in ["build", "detect"] {
            let mut r = rng(0x9A76);
            let mut c = base_case(&mut r, "paths", Some(phase));
            let mut d: Vec<String> = c.fields[1].split('/').map(str::to_string).collect();
            d[which] = hex([&b"a-\xff"[..], b"b-\xff", b"l-\xff"][which]);
            c.fields[1] = d.join("/");
            c.tags.push(("sub".into(), format!("nonutf8-{}", ["app", "bp", "layers"][which])));
            emit(c);
        } }
    }
    // seeded combinations (over every platform state, listing, target class `ok`, document the base case draws)
    for _ in 0..(if thorough { 6000 } else { 300 }) {
        let mut r = rng(0x9A75);
        let mut c = base_case(&mut r, "paths", None);
        let mut ch = [0usize; 5];
        for k in 0..5 { ch[k] = if r.chance(1, 4) { 0 } else { r.below(64) as usize }; }
        set_spellings(&mut c, ch);
        c.tags.push(("sub".into(), "combo".into()));
        emit(c);
    }
}

fn directed(tier: &str, seed: u64, emit: &mut dyn FnMut(Case)) {
    let thorough = tier == "thorough";
    let mut idx = 0u64;
    let mut rng = |salt: u64| { idx += 1; Rng::for_case(seed ^ salt, idx) };
    // (1) many entries: sizes straddling 16, 20, 32, 64, 128, 256 (thorough: 512, 1000, 1024): all files / mixed kinds / one invalid file first, in the middle, last
    let mut sizes: Vec<usize> = vec![16, 17, 20, 21, 32, 33, 64, 65, 128, 129, 256, 257];
    if thorough { sizes.extend([512, 513, 1000, 1024, 1025]); }
    for &n in &sizes {
        for sub in ["files", "mixed", "bad-first", "bad-middle", "bad-last"] {
            let mut r = rng(0xA11);
            let bad_at = match sub { "bad-first" => Some(0), "bad-middle" => Some(n / 2), "bad-last" => Some(n - 1), _ => None };
            let mut order: Vec<usize> = (0..n).collect();
            r.shuffle(&mut order); // creation order differs from name order
            let listing: Vec<String> = order.iter().map(|&i| {
                let name = format!("VAR_{i:04}").into_bytes();
                if bad_at == Some(i) { let b: &[u8] = *r.pick(BAD); return entry(&name, if i % 2 == 0 { "f" } else { "lf" }, b); }
                let k = if sub == "mixed" { *r.pick(&["f", "f", "lf", "lr", "l2", "hf", "d", "de", "ld", "ld2", "dl", "lo"]) } else { "f" };
                let content: Vec<u8> = if holds_var(k) { if r.chance(1, 4) { r.pick(GOOD).to_vec() } else { format!("value-{i}").into_bytes() } } else { vec![] };
                entry(&name, k, &content)
            }).collect();
            let mut c = with_listing(&mut r, "many", sub, listing, if n % 2 == 1 && sub == "mixed" { "e" } else { "" });
            if bad_at.is_some() { c.tags.push(("badfiles".into(), "1".into())); }
            emit(c);
        }
    }
    // (2) big contents: sizes straddling 4 KiB, 8 KiB, 64 KiB (and 16, 32, 128 KiB; thorough 256 KiB): ASCII, 3-byte characters with a pad of
    //     0 / 1 / 2 bytes (a character across every buffer boundary), a BOM first, a trailing newline / CRLF, an invalid byte first / at 4096 / last
    let mut csizes: Vec<usize> = vec![4095, 4096, 4097, 8191, 8192, 8193, 16384, 32768, 65535, 65536, 65537, 131072];
    if thorough { csizes.extend([262143, 262144, 262145]); }
    for &n in &csizes {
        let mut variants: Vec<(&str, Vec<u8>)> = vec![("ascii", filler(n, b'x')), ("mb0", multibyte(n, 0)), ("mb1", multibyte(n, 1)), ("mb2", multibyte(n, 2))];
        { let mut v = "\u{feff}".as_bytes().to_vec(); v.extend(filler(n - 3, b'b')); variants.push(("bom", v)); }
        { let mut v = filler(n - 1, b'l'); v.push(b'\n'); variants.push(("lf", v)); }
        { let mut v = filler(n - 2, b'l'); v.extend_from_slice(b"\r\n"); variants.push(("crlf", v)); }
        { let mut v = filler(n, b'i'); v[0] = 0xff; variants.push(("bad-first", v)); }
        { let mut v = filler(n, b'i'); v[4096.min(n - 1)] = 0x80; variants.push(("bad-4096", v)); }
        { let mut v = filler(n, b'i'); v[n - 1] = 0xc3; variants.push(("bad-last", v)); }
        for (j, (sub, content)) in variants.into_iter().enumerate() {
            let mut r = rng(0xB16);
            let k = ["f", "lf", "lr", "hf", "l2"][j % 5];
            let mut listing = vec![entry(b"BIG", k, &content), entry(b"SMALL", "f", b"s")];
            if j % 2 == 0 { listing.reverse(); }
            let mut c = with_listing(&mut r, "bigcontent", sub, listing, "");
            c.tags.push(("bytes".into(), n.to_string()));
            if sub.starts_with("bad") { c.tags.push(("badfiles".into(), "1".into())); }
            emit(c);
        }
    }
    // (3) long names: 1, 2, 100, 200, 254, 255 bytes (NAME_MAX) of ASCII / 3-byte characters / bytes that are not UTF-8
    for &n in &[1usize, 2, 100, 200, 254, 255] {
        for (sub, name) in [("ascii", filler(n, b'N')), ("mb", multibyte(n, n % 3)), ("raw", filler(n, 0xfe))] {
            let mut r = rng(0x7A3E);
            let c = with_listing(&mut r, "longname", sub, vec![entry(&name, if n % 2 == 0 { "f" } else { "lf" }, b"named"), entry(b"OTHER", "f", b"o")], "");
            emit(c);
        }
    }
    // (4) every name of the pool once as a regular file and once behind a link, (5) every content of both pools once each way
    for (i, nm) in NAMES.iter().enumerate() { for k in ["f", VAR_KINDS[1 + i % 4]] { let mut r = rng(0x9A3E); emit(with_listing(&mut r, "names", k, vec![entry(nm, k, b"v")], "")); } }
    for (i, ct) in GOOD.iter().chain(BAD.iter()).enumerate() {
        for k in ["f", VAR_KINDS[1 + i % 4]] {
            let mut r = rng(0xC0A7);
            let mut c = with_listing(&mut r, "contents", k, vec![entry(b"A", "f", b"a"), entry(b"SUBJECT", k, ct), entry(b"Z", "f", b"z")], "");
            if !is_utf8(ct) { c.tags.push(("badfiles".into(), "1".into())); }
            emit(c);
        }
    }
    // (6) correlated names / contents / aliases
    let groups: Vec<(&str, Vec<String>)> = vec![
        ("case-variants", vec![entry(b"FOO", "f", b"1"), entry(b"Foo", "f", b"2"), entry(b"foo", "f", b"3"), entry(b"fOO", "lf", b"4")]),
        ("prefixes", vec![entry(b"A", "f", b"1"), entry(b"A_", "f", b"2"), entry(b"A_B", "f", b"3"), entry(b"A_B_C", "lf", b"4"), entry(b"A.B", "f", b"5"), entry(b"A.B.append", "f", b"6"), entry(b"A ", "f", b"7")]),
        ("nfc-nfd", vec![entry(b"caf\xc3\xa9", "f", b"nfc"), entry(b"cafe\xcc\x81", "f", b"nfd")]),
        ("invalid-bytes-apart", vec![entry(b"X\xffY", "f", b"1"), entry(b"X\xfeY", "f", b"2"), entry(b"X\xef\xbf\xbdY", "f", b"3"), entry(b"X\xff\xffY", "lf", b"4")]),
        ("same-content", vec![entry(b"P", "f", b"same"), entry(b"Q", "lf", b"same"), entry(b"R", "hf", b"same"), entry(b"S", "l2", b"same")]),
        ("content-is-a-name", vec![entry(b"P", "f", b"Q"), entry(b"Q", "f", b"P"), entry(b"R", "lf", b"R")]),
        ("named-like-targets", vec![entry(b"f0", "lf", b"zero"), entry(b"f1", "lf", b"one"), entry(b"f2", "lr", b"two"), entry(b"m3", "l2", b"three"), entry(b"h4", "hf", b"four"), entry(b"d5", "ld", b""), entry(b"missing6", "dl", b"")]),
        ("links-to-one-sibling", vec![entry(b"REAL", "f", b"shared"), entry_sib(b"ALIAS1", "ls", b"shared", b"REAL"), entry_sib(b"ALIAS2", "ls", b"shared", b"REAL"), entry_sib(b"HARD1", "hs", b"shared", b"REAL"), entry_sib(b"HARD2", "hs", b"shared", b"REAL")]),
        ("sibling-invalid", vec![entry(b"REAL", "f", b"\xff"), entry_sib(b"ALIAS", "ls", b"\xff", b"REAL")]),
        ("k8s", vec![entry(b"..2024_01_01", "d", b""), entry(b"..data", "ld", b""), entry(b"DATABASE_URL", "lr", b"postgres://u:p@h/db"), entry(b"SECRET", "l2", b"s3cr3t\n")]),
        ("every-kind", vec![entry(b"K_f", "f", b"1"), entry(b"K_lf", "lf", b"2"), entry(b"K_lr", "lr", b"3"), entry(b"K_l2", "l2", b"4"), entry(b"K_hf", "hf", b"5"), entry_sib(b"K_ls", "ls", b"1", b"K_f"), entry_sib(b"K_hs", "hs", b"1", b"K_f"),
            entry(b"K_d", "d", b""), entry(b"K_de", "de", b""), entry(b"K_ld", "ld", b""), entry(b"K_ld2", "ld2", b""), entry(b"K_dl", "dl", b""), entry(b"K_lo", "lo", b"")]),
        ("only-non-files", vec![entry(b"D", "d", b""), entry(b"E", "de", b""), entry(b"L", "ld", b""), entry(b"M", "ld2", b""), entry(b"N", "dl", b""), entry(b"O", "lo", b"")]),
    ];
    for (sub, listing) in &groups {
        for flags in ["", "e", "p", "ep"] {
            let mut r = rng(0xC022);
            let mut l = listing.clone();
            if flags != "" { r.shuffle(&mut l); }
            let mut c = with_listing(&mut r, "correlated", sub, l, flags);
            if *sub == "invalid-bytes-apart" || *sub == "sibling-invalid" { c.tags.push(("badfiles".into(), if *sub == "sibling-invalid" { "1" } else { "0" }.into())); }
            emit(c);
        }
    }
    // (7) the env directory itself: missing / a file / a dangling link / a link to a file, each with the platform directory plain or behind a link
    for p in ["noplat", "noenv", "notdir", "envdangling", "envlinkfile", "-"] { for flags in ["", "p", "e", "ep"] {
        let mut r = rng(0xE27);
        let mut c = with_listing(&mut r, "envdir", p, vec![], flags);
        c.fields[3] = p.to_string();
        emit(c);
    } }
    // (8) target variables: every value of every pool with the other four at their usual values, variant set / unset; all five equal; long values
    for k in 0..5 { for v in TARGET_POOL[k] { for variant_set in [true, false] {
        if k == 2 && !variant_set { continue; }
        let mut r = rng(0x7A26);
        let mut c = base_case(&mut r, "targetpool", None);
        let mut vars: Vec<Option<Vec<u8>>> = vec![Some(b"linux".to_vec()), Some(b"amd64".to_vec()), if variant_set { Some(b"v8".to_vec()) } else { None }, Some(b"ubuntu".to_vec()), Some(b"24.04".to_vec())];
        vars[k] = Some(v.to_vec());
        c.fields[2] = var_field(&vars);
        c.tags.push(("sub".into(), ["os", "arch", "variant", "dname", "dver"][k].into()));
        emit(c);
    } } }
    for v in [&b"same"[..], b"", b"linux", b"\xef\xbb\xbf"] { let mut r = rng(0x7A27); let mut c = base_case(&mut r, "targetpool", None); c.fields[2] = var_field(&vec![Some(v.to_vec()); 5]); c.tags.push(("sub".into(), "all-equal".into())); emit(c); }
    for n in [255usize, 256, 257, 4095, 4096, 4097, 65536] { for k in 0..5 {
        let mut r = rng(0x7A28);
        let mut c = base_case(&mut r, "targetpool", None);
        let mut vars: Vec<Option<Vec<u8>>> = vec![Some(b"linux".to_vec()), Some(b"amd64".to_vec()), None, Some(b"ubuntu".to_vec()), Some(b"24.04".to_vec())];
        vars[k] = Some(if n % 2 == 0 { filler(n, b'v') } else { multibyte(n, 1) });
        c.fields[2] = var_field(&vars);
        c.tags.push(("sub".into(), "long".into()));
        emit(c);
    } }
    for _ in 0..(if thorough { 4000 } else { 300 }) {
        let mut r = rng(0x7A29);
        let mut c = base_case(&mut r, "targetpool", None);
        let mut vars: Vec<Option<Vec<u8>>> = (0..5).map(|k| Some(r.pick(TARGET_POOL[k]).to_vec())).collect();
        if r.chance(1, 3) { vars[2] = None; }
        c.fields[2] = var_field(&vars);
        c.tags.push(("sub".into(), "cross".into()));
        emit(c);
    }
    // (9) other variables in the process environment (none is an input): names close to the inputs' names, well-known variables
    let decoy_names: &[&[u8]] = &[b"cnb_target_os", b"Cnb_Target_Os", b"CNB_TARGET_OS_", b"_CNB_TARGET_OS", b"CNB_TARGET_OS ", b"CNB_TARGET", b"CNB_TARGET_VARIANT", b"CNB_TARGET_ARCHVARIANT", b"CNB_TARGET_DISTRO", b"CNB_TARGET_DISTRO_NAME_",
        b"CNB_TARGET_ID", b"CNB_STACK_ID", b"CNB_PLATFORM_API", b"CNB_BUILDPACK_API", b"CNB_OS", b"CNB_ARCH", b"TARGETOS", b"TARGETARCH", b"TARGETVARIANT", b"GOOS", b"GOARCH", b"OS", b"OSTYPE", b"HOSTTYPE", b"PROCESSOR_ARCHITECTURE",
        b"PATH", b"HOME", b"LANG", b"LC_ALL", b"TZ", b"RUST_BACKTRACE", b"RUST_LOG", b"NO_COLOR", b"CI", b"DEBUG", b"BP_LOG_LEVEL", b"FOO", b"CNB_TARGET_OS\xff", b"\xc3\x9cBER", b"A B"];
    for _ in 0..(if thorough { 2000 } else { 200 }) {
        let mut r = rng(0xDEC0);
        let forced = *r.pick(&["ok", "ok", "ok", "missing", "d7"]);
        let mut c = gen_case_phase(&mut r, "decoy", Some(forced), None);
        let mut names: Vec<&[u8]> = vec![];
        for _ in 0..r.range(1, 6) { let n = *r.pick(decoy_names); if !names.contains(&n) { names.push(n); } }
        let others: Vec<String> = names.iter().map(|n| { let k = r.below(5) as usize; let v: &[u8] = *r.pick(TARGET_POOL[k]); format!("{}={}", hex(n), hex(v)) }).collect();
        c.fields.push(join(",", &others));
        c.tags.push(("others".into(), others.len().to_string()));
        c.nontrivial = true;
        emit(c);
    }
    // (10) big documents: buildpack plans with n entries, store / descriptor metadata n keys wide or up to 48 levels deep, descriptors with n
    //      keywords / licenses / stacks / targets / distros; n straddling 16, 32, 64, 128, 256 (thorough: 1024)
    let mut dsizes: Vec<usize> = vec![16, 17, 32, 33, 64, 65, 128, 129, 256, 257];
    if thorough { dsizes.extend([1024, 1025]); }
    for &n in &dsizes {
        let mut r = rng(0xB1D0);
        let mut c = base_case(&mut r, "bigdoc", Some("build"));
        let plan: PlanData = (0..n).map(|i| (format!("entry-{i}"), if i % 5 == 4 { None } else { Some(vec![("version".to_string(), TV::S(format!("{i}.0"))), ("n".to_string(), TV::I(i as i64)), ("nested".to_string(), TV::T(vec![("k".to_string(), TV::B(i % 2 == 0))]))]) })).collect();
        let st = cnbv::tomllayout::Style::directed(if n % 2 == 0 { 0 } else { 3 });
        c.fields[4] = hex(cnbv::tomllayout::emit(&plan_value(&plan, false), &st, &mut r).as_bytes()); c.fields[5] = plan_expected(&plan);
        let store = vec![("wide".to_string(), TV::T(wide_table(n))), ("list".to_string(), TV::A((0..n).map(|i| TV::I(i as i64)).collect()))];
        let mut sdoc = toml::Table::new(); sdoc.insert("metadata".into(), toml::Value::Table(tv_table(&store)));
        c.fields[6] = hex(cnbv::tomllayout::emit(&sdoc, &st, &mut r).as_bytes()); c.fields[7] = canon_table(&store);
        let mut d = draw_desc(&mut r);
        d.keywords = (0..n).map(|i| format!("kw{i}")).collect();
        d.licenses = (0..n).map(|i| (Some(format!("L-{i}")), if i % 2 == 0 { Some(format!("https://example.tld/{i}")) } else { None })).collect();
        d.stacks = (0..n).map(|i| (format!("stack-{i}"), (0..i % 3).map(|j| format!("m{j}")).collect(), false)).collect();
        d.targets = (0..n).map(|i| (Some("linux".to_string()), Some(["amd64", "arm64"][i % 2].to_string()), None, (0..(if i == 0 { n } else { i % 3 })).map(|j| ("ubuntu".to_string(), format!("{j}.04"))).collect())).collect();
        d.sbom = (0..n).map(|i| i % 3).collect();
        d.metadata = Some(wide_table(n));
        c.fields[8] = hex(cnbv::tomllayout::emit(&desc_value(&d), &st, &mut r).as_bytes()); c.fields[9] = desc_expected(&d);
        c.tags.push(("n".into(), n.to_string()));
        emit(c);
    }
    for &depth in &[8usize, 16, 32, 48] {
        let mut r = rng(0xDEE9);
        let mut c = base_case(&mut r, "bigdoc", Some("build"));
        let md = deep_table(depth);
        let plan: PlanData = vec![("deep".to_string(), Some(md.clone()))];
        let st = cnbv::tomllayout::Style::plain();
        c.fields[4] = hex(cnbv::tomllayout::emit(&plan_value(&plan, false), &st, &mut r).as_bytes()); c.fields[5] = plan_expected(&plan);
        let mut sdoc = toml::Table::new(); sdoc.insert("metadata".into(), toml::Value::Table(tv_table(&md)));
        c.fields[6] = hex(cnbv::tomllayout::emit(&sdoc, &st, &mut r).as_bytes()); c.fields[7] = canon_table(&md);
        let mut d = draw_desc(&mut r); d.metadata = Some(md.clone());
        c.fields[8] = hex(cnbv::tomllayout::emit(&desc_value(&d), &st, &mut r).as_bytes()); c.fields[9] = desc_expected(&d);
        c.tags.push(("depth".into(), depth.to_string()));
        emit(c);
    }
    // (11) plan / store / descriptor in other TOML layouts (dotted keys, inline tables and arrays of inline tables, sub-table headers, implicit
    //      super-tables, keys shuffled, quoted keys, literal / multi-line / escaped strings, other number spellings, CRLF, BOM, comments, blank
    //      lines, indentation, no final newline): every directed style three times, then seeded random styles
    let n_layout = if thorough { 6000 } else { 400 };
    for i in 0..(3 * cnbv::tomllayout::Style::N_DIRECTED + n_layout) {
        let mut r = rng(0x1A70);
        let mut c = base_case(&mut r, "layout", Some(if i % 4 == 3 { "detect" } else { "build" }));
        let (st, tag) = if i < 3 * cnbv::tomllayout::Style::N_DIRECTED { let st = cnbv::tomllayout::Style::directed(i); let t = st.tag(); (st, t) } else { (cnbv::tomllayout::Style::random(&mut r), "random".to_string()) };
        if c.fields[0] == "build" {
            let plan = draw_plan(&mut r);
            let explicit = r.chance(1, 2);
            c.fields[4] = hex(cnbv::tomllayout::emit(&plan_value(&plan, explicit), &st, &mut r).as_bytes()); c.fields[5] = plan_expected(&plan);
            let md = gen_table(&mut r, 1);
            let mut sdoc = toml::Table::new(); sdoc.insert("metadata".into(), toml::Value::Table(tv_table(&md)));
            c.fields[6] = hex(cnbv::tomllayout::emit(&sdoc, &st, &mut r).as_bytes()); c.fields[7] = canon_table(&md);
        }
        let d = draw_desc(&mut r);
        c.fields[8] = hex(cnbv::tomllayout::emit(&desc_value(&d), &st, &mut r).as_bytes()); c.fields[9] = desc_expected(&d);
        c.tags.push(("layout".into(), tag));
        emit(c);
    }
}

/// a well-formed document of each kind around one string value: `head + value + tail`
const DOC_FRAMES: [(&str, usize, usize, &[u8], &[u8]); 3] = [
    ("store", 6, 7, b"[metadata]\nowner = \"", b"\"\nbuilds = 3\n"),
    ("plan", 4, 5, b"[[entries]]\nname = \"", b"\"\n[entries.metadata]\nversion = \"1\"\n"),
    ("desc", 8, 9, b"api = \"0.10\"\n\n[buildpack]\nid = \"tbp/c06\"\nversion = \"0.0.1\"\nname = \"", b"\"\n\n[metadata]\nk = \"v\"\n"),
];
fn utf16(text: &[u8], le: bool) -> Vec<u8> {
    let mut o: Vec<u8> = if le { vec![0xff, 0xfe] } else { vec![0xfe, 0xff] };
    for u in String::from_utf8_lossy(text).encode_utf16() { o.extend_from_slice(&if le { u.to_le_bytes() } else { u.to_be_bytes() }); }
    o
}
/// bytes that are not a document: (tag, bytes, is a String). Not valid UTF-8: Latin-1 / lone continuation / truncated / overlong / surrogate
/// inside a string value, in a key, in a comment, as the first and as the last byte of the file, a multi-byte character cut at the end of
/// the file (an interrupted write), UTF-16 with BOM in both byte orders, the generated valid document with one byte of a multi-byte
/// character removed or with a Latin-1 comment appended; valid UTF-8 that is no TOML: NUL inside a string, NUL as last byte, only NULs
fn undecodable_docs(head: &[u8], tail: &[u8], valid_doc: &[u8]) -> Vec<(&'static str, Vec<u8>, bool)> {
    let cat = |parts: &[&[u8]]| parts.concat();
    let good = cat(&[head, b"x", tail]);
    let mut v: Vec<(&'static str, Vec<u8>, bool)> = vec![
        ("latin1-in-string", cat(&[head, b"Ren\xe9", tail]), false),
        ("latin1-only", cat(&[head, b"\xe9", tail]), false),
        ("cut-at-end", cat(&[head, b"Ren\xc3"]), false),
        ("cut-3byte-at-end", cat(&[head, b"\xe2\x82"]), false),
        ("cut-inside", cat(&[head, b"\xe2\x82", tail]), false),
        ("lone-continuation", cat(&[head, b"a\x80b", tail]), false),
        ("overlong", cat(&[head, b"\xc0\x80", tail]), false),
        ("surrogate", cat(&[head, b"\xed\xa0\x80", tail]), false),
        ("ff-first", cat(&[b"\xff", &good]), false),
        ("ff-last", cat(&[&good, b"\xff"]), false),
        ("latin1-in-comment", cat(&[&good, b"# caf\xe9\n"]), false),
        ("latin1-in-key", cat(&[&good, b"\"cl\xe9\" = 1\n"]), false),
        ("bom-then-invalid", cat(&[b"\xef\xbb\xbf", head, b"\xfe", tail]), false),
        ("utf16le-bom", utf16(&good, true), false),
        ("utf16be-bom", utf16(&good, false), false),
        ("generated-latin1-comment", cat(&[valid_doc, b"\n# \xe9\n"]), false),
        ("nul-in-string", cat(&[head, b"a\x00b", tail]), true),
        ("nul-last", cat(&[&good, b"\x00"]), true),
        ("nul-only", vec![0, 0, 0, 0], true),
    ];
    // the generated document with the last byte of its first multi-byte character removed
    if let Some(at) = valid_doc.iter().position(|b| *b >= 0xc2) { let mut d = valid_doc.to_vec(); let w = if d[at] >= 0xf0 { 4 } else if d[at] >= 0xe0 { 3 } else { 2 }; if at + w <= d.len() { d.remove(at + w - 1); v.push(("generated-char-cut", d, false)); } }
    v
}

/// (13) plan, store and descriptor as raw file-system state: bytes that are not a String or not TOML, as a file and behind a link; a
///      directory / a link to a directory / nothing / a dangling link at the path; an empty file; combinations (which error comes first)
fn directed_rawdocs(_tier: &str, seed: u64, emit: &mut dyn FnMut(Case)) {
    let mut idx = 0u64;
    let mut rng = |salt: u64| { idx += 1; Rng::for_case(seed ^ salt, 0xD0C500 + idx) };
    let set = |c: &mut Case, tf: usize, xf: usize, state: String| { c.fields[tf] = state; c.fields[xf] = "!".into(); };
    // NOT in the default stream (open question, see propcfg `rule`): raw states of buildpack.toml. `libcnb_runtime` reads the descriptor's
    // `api` key before anything else and answers a failure with a message on stderr and `exit(254)`: no context, but no `on_error` either.
    let rawdesc = std::env::var("VERIF_C06_RAWDESC").is_ok();
    for (doc, tf, xf, head, tail) in DOC_FRAMES {
        if doc == "desc" && !rawdesc { continue; }
        for phase in ["build", "detect"] {
            if phase == "detect" && doc != "desc" { continue; }
            let probe = { let mut r = rng(0xD0C0); base_case(&mut r, "rawdocs", Some(phase)) };
            let valid_doc = if probe.fields[tf] == "none" { b"[metadata]\nk = \"\xc3\xbc\"\n".to_vec() } else { unhex(&probe.fields[tf]).unwrap() };
            for (shape, bytes, is_string) in undecodable_docs(head, tail, &valid_doc) {
                assert_eq!(is_utf8(&bytes), is_string, "{doc} {shape}");
                // a String among them must be no TOML at all (whatever the document type), so that "does not decode" is not this generator's opinion
                if is_string { assert!(toml::from_str::<toml::Table>(std::str::from_utf8(&bytes).unwrap()).is_err(), "{doc} {shape} parses"); }
                for place in ["raw", "lnk"] {
                    let mut r = rng(0xD0C1);
                    let mut c = base_case(&mut r, "rawdocs", Some(phase));
                    set(&mut c, tf, xf, format!("{place}:{}", hex(&bytes)));
                    c.tags.push(("sub".into(), format!("{doc}-{shape}")));
                    c.tags.push(("docstate".into(), if is_string { "not-toml" } else { "not-utf8" }.into()));
                    c.tags.push(("place".into(), place.into()));
                    emit(c);
                }
            }
            for state in ["dir", "lnkdir", "missing", "dangling"] {
                let mut r = rng(0xD0C2);
                let mut c = base_case(&mut r, "rawdocs", Some(phase));
                set(&mut c, tf, xf, state.into());
                if doc == "store" && (state == "missing" || state == "dangling") { c.fields[xf] = "none".into(); }
                c.tags.push(("sub".into(), format!("{doc}-{state}")));
                c.tags.push(("docstate".into(), state.into()));
                emit(c);
            }
            // an empty file (and one that holds a BOM / a comment only): no store metadata, no plan entries; a descriptor without its mandatory keys does not decode
            for (shape, bytes) in [("empty", &b""[..]), ("bom-only", b"\xef\xbb\xbf"), ("comment-only", b"# nothing\n"), ("newline-only", b"\n")] {
                for place in ["raw", "lnk"] {
                    let mut r = rng(0xD0C3);
                    let mut c = base_case(&mut r, "rawdocs", Some(phase));
                    match doc {
                        "desc" => set(&mut c, tf, xf, format!("{place}:{}", hex(bytes))),
                        _ => { if place == "lnk" { continue; } c.fields[tf] = hex(bytes); c.fields[xf] = if doc == "store" { "{}".into() } else { "[]".into() }; }
                    }
                    c.tags.push(("sub".into(), format!("{doc}-{shape}")));
                    c.tags.push(("docstate".into(), "empty".into()));
                    emit(c);
                }
            }
        }
    }
    // combinations: which failure is reported when several inputs are bad (descriptor, platform, plan, store, target is the code's order);
    // whatever the order, no context may come out
    let bad = |k: usize| format!("raw:{}", hex(&[DOC_FRAMES[k].3, &b"Ren\xe9"[..], DOC_FRAMES[k].4].concat()));
    for combo in 0..24u32 {
        let mut r = rng(0xD0C4);
        let mut c = base_case(&mut r, "rawdocs", Some("build"));
        let mut what = vec![];
        if combo & 1 != 0 { set(&mut c, 6, 7, if combo & 16 != 0 { "dir".into() } else { bad(0) }); what.push("store"); }
        if combo & 2 != 0 { set(&mut c, 4, 5, bad(1)); what.push("plan"); }
        if combo & 4 != 0 { set(&mut c, 8, 9, bad(2)); what.push("desc"); }
        if combo & 8 != 0 { c.fields[3] = if combo & 16 != 0 { "notdir".into() } else { entry(b"BADVAR", "f", b"\xff") }; what.push("plat"); }
        if combo & 16 != 0 && combo & 8 == 0 { let mut vars: Vec<Option<Vec<u8>>> = vec![Some(b"linux".to_vec()), Some(b"amd64".to_vec()), None, None, Some(b"24.04".to_vec())]; if combo & 2 != 0 { vars[0] = Some(b"\xff".to_vec()); } c.fields[2] = var_field(&vars); what.push("target"); }
        if what.is_empty() || (combo & 4 != 0 && !rawdesc) { continue; }
        c.tags.push(("sub".into(), format!("combo-{}", what.join("+"))));
        emit(c);
    }
}

fn generate(tier: &str, seed: u64, emit: &mut dyn FnMut(Case)) {
    let n = if tier == "thorough" { 40_000 } else { 3_000 };
    // a fixed head: every target class once per phase draw, so the tagged minorities are present whatever the seed
    for (k, cls) in ["ok", "missing", "nonutf8", "d7", "mix", "ok", "missing", "nonutf8", "d7"].iter().enumerate() {
        let mut r = Rng::for_case(seed ^ 0xC06, k as u64);
        emit(gen_case(&mut r, "head", Some(cls)));
    }
    directed(tier, seed, emit);
    directed_paths(tier, seed, emit);
    directed_rawdocs(tier, seed, emit);
    // the seeded stream; one case in four hands its paths over in other spellings (drawn last: the rest of the case is what it was)
    for idx in 0..n {
        let mut r = Rng::for_case(seed, idx);
        let mut c = gen_case(&mut r, "gen", None);
        if r.chance(1, 4) { let mut ch = [0usize; 5]; for k in 0..5 { ch[k] = if r.chance(1, 3) { 0 } else { r.below(64) as usize }; } set_spellings(&mut c, ch); }
        emit(c);
    }
}

fn main() { main_loop_jobs("c06", 14, &generate, &run_case); }
