//! C10 correspondence: implicit layer paths of `LayerEnv::read_from_layer_dir` over all 6^4 kinds of
//! bin/lib/include/pkgconfig, with explicit entries, and read->write cycles.
use cnbv::*;
use libcnb::Env;
use libcnb::layer_env::{LayerEnv, ModificationBehavior, Scope};
use std::ffi::OsString;
use std::os::unix::ffi::{OsStrExt, OsStringExt};
use std::path::Path;

fn os(b: &[u8]) -> OsString { OsString::from_vec(b.to_vec()) }
fn parse_scope(s: &str) -> Scope {
    match s { "A" => Scope::All, "B" => Scope::Build, "L" => Scope::Launch,
        _ => Scope::Process(String::from_utf8(unhex(s.strip_prefix("P:").unwrap()).unwrap()).unwrap()) }
}
fn parse_beh(s: &str) -> ModificationBehavior {
    match s { "a" => ModificationBehavior::Append, "d" => ModificationBehavior::Default, "m" => ModificationBehavior::Delimiter,
        "o" => ModificationBehavior::Override, "p" => ModificationBehavior::Prepend, _ => panic!("beh") }
}
type Ins = (String, String, Vec<u8>, Vec<u8>);
fn parse_ins(s: &str) -> Vec<Ins> {
    split_list(s, ",").iter().map(|i| { let p: Vec<&str> = i.split('/').collect(); (p[0].to_string(), p[1].to_string(), unhex(p[2]).unwrap(), unhex(p[3]).unwrap()) }).collect()
}
fn build(ins: &[Ins]) -> LayerEnv { let mut le = LayerEnv::new(); for (s, b, n, v) in ins { le.insert(parse_scope(s), parse_beh(b), os(n), os(v)); } le }

fn env_snap(root: &Path) -> String {
    // file contents are shown with the layer path written `$L` (explicit values may mention the layer's own directories)
    let lp = root.as_os_str().as_bytes().to_vec();
    fn walk(dir: &Path, pre: &str, lp: &[u8], out: &mut Vec<String>) {
        for e in std::fs::read_dir(dir).unwrap() {
            let e = e.unwrap();
            let name = hex(e.file_name().as_bytes());
            if pre.is_empty() && !["env", "env.build", "env.launch"].contains(&e.file_name().to_str().unwrap_or("")) { continue; }
            let p = if pre.is_empty() { name } else { format!("{pre}/{name}") };
            let ft = e.file_type().unwrap();
            if ft.is_symlink() { out.push(format!("L {p}")); }
            else if ft.is_dir() { out.push(format!("D {p}")); walk(&e.path(), &p, lp, out); }
            else { out.push(format!("F {p} {}", hex(&replace(&std::fs::read(e.path()).unwrap(), lp, b"$L")))); }
        }
    }
    let mut out = vec![]; walk(root, "", &lp, &mut out); out.sort(); join(",", &out)
}
fn replace(h: &[u8], from: &[u8], to: &[u8]) -> Vec<u8> {
    let mut out = vec![]; let mut i = 0;
    while i < h.len() { if h[i..].starts_with(from) { out.extend_from_slice(to); i += from.len(); } else { out.push(h[i]); i += 1; } }
    out
}
const PROBE_SCOPES: &[&str] = &["A", "B", "L", "P:776562", "P:776f726b6572", "P:6275696c64", "P:6c61756e6368"];
fn probes(le: &LayerEnv, names: &[Vec<u8>], layer: &Path, start: Option<&[(Vec<u8>, Vec<u8>)]>) -> String {
    let mut dn: Vec<Vec<u8>> = vec![];
    for n in names { if !dn.contains(n) { dn.push(n.clone()); } }
    let mut e1 = Env::new();
    for n in &dn { e1.insert(os(n), os(b"0")); }
    let mut envs = vec![Env::new(), e1];
    // the case's own starting environment (values may mention the layer directory as `$L`)
    if let Some(st) = start { let mut e2 = Env::new(); for (n, v) in st { e2.insert(os(n), os(&replace(v, b"$L", layer.as_os_str().as_bytes()))); } envs.push(e2); }
    let lp = layer.as_os_str().as_bytes();
    let mut parts = vec![];
    for sc in PROBE_SCOPES { for (i, e) in envs.iter().enumerate() {
        let out = le.apply(parse_scope(sc), e);
        let mut v: Vec<(Vec<u8>, Vec<u8>)> = out.iter().map(|(k, v)| (k.as_bytes().to_vec(), replace(v.as_bytes(), lp, b"$L"))).collect();
        v.sort();
        parts.push(format!("{sc}>{i}>{}", join(",", &v.iter().map(|(k, v)| format!("{}={}", hex(k), hex(v))).collect::<Vec<_>>())));
    } }
    parts.join("|")
}

/// every way a well-known sub-directory can (not) be a directory: the six kinds of the property's quantifier and six more
/// (e non-empty directory, C symlink -> symlink -> directory, r relative symlink to a directory, m directory with mode 000,
///  l symlink loop, p FIFO)
const KINDS6: [char; 6] = ['a', 'd', 'f', 'D', 'F', 'x'];
const KINDS12: [char; 12] = ['a', 'd', 'f', 'D', 'F', 'x', 'e', 'C', 'r', 'm', 'l', 'p'];
fn kind_is_dir(c: char) -> bool { matches!(c, 'd' | 'D' | 'e' | 'C' | 'r' | 'm') }

unsafe extern "C" { fn mkfifo(path: *const std::ffi::c_char, mode: u32) -> i32; }

fn run_case(f: &[String]) -> String {
    if f.len() != 3 && f.len() != 5 { return "bad-case".into(); }
    let tmp = tempfile::tempdir().unwrap();
    // `linked`: the layer directory is reached through a symlink
    let linked = f.len() == 5 && f[4] == "linked";
    if f.len() == 5 && !(f[4] == "-" || linked) { return "bad-case".into(); }
    let layer = tmp.path().join("layer");
    if linked { std::fs::create_dir(tmp.path().join("real")).unwrap(); std::os::unix::fs::symlink(tmp.path().join("real"), &layer).unwrap(); }
    else { std::fs::create_dir(&layer).unwrap(); }
    std::fs::create_dir(tmp.path().join("somedir")).unwrap();
    std::os::unix::fs::symlink(tmp.path().join("somedir"), tmp.path().join("hop")).unwrap();
    std::fs::write(tmp.path().join("somefile"), b"x").unwrap();
    if f[0].chars().count() != 4 { return "bad-case".into(); }
    let mut closed: Vec<std::path::PathBuf> = vec![];
    for (c, sub) in f[0].chars().zip(["bin", "lib", "include", "pkgconfig"]) {
        let p = layer.join(sub);
        match c {
            'a' => {}
            'd' => std::fs::create_dir(&p).unwrap(),
            'f' => std::fs::write(&p, b"").unwrap(),
            'D' => std::os::unix::fs::symlink(tmp.path().join("somedir"), &p).unwrap(),
            'F' => std::os::unix::fs::symlink(tmp.path().join("somefile"), &p).unwrap(),
            'x' => std::os::unix::fs::symlink(tmp.path().join("nowhere"), &p).unwrap(),
            'e' => { std::fs::create_dir(&p).unwrap(); std::fs::write(p.join("f"), b"").unwrap(); }
            'C' => std::os::unix::fs::symlink(tmp.path().join("hop"), &p).unwrap(),
            // relative to the directory the link lives in (the real layer directory's parent is the temp dir in both layouts)
            'r' => std::os::unix::fs::symlink("../somedir", &p).unwrap(),
            'm' => { use std::os::unix::fs::PermissionsExt; std::fs::create_dir(&p).unwrap(); std::fs::set_permissions(&p, std::fs::Permissions::from_mode(0)).unwrap(); closed.push(p.clone()); }
            'l' => std::os::unix::fs::symlink(sub, &p).unwrap(),
            'p' => { let cp = std::ffi::CString::new(p.as_os_str().as_bytes()).unwrap(); if unsafe { mkfifo(cp.as_ptr(), 0o644) } != 0 { return "harness-error:mkfifo".into(); } }
            _ => return "bad-case".into(),
        }
    }
    let out = run_on(f, &layer);
    { use std::os::unix::fs::PermissionsExt; for p in closed { let _ = std::fs::set_permissions(&p, std::fs::Permissions::from_mode(0o755)); } }
    out
}

fn run_on(f: &[String], layer: &Path) -> String {
    let lp = layer.as_os_str().as_bytes().to_vec();
    // explicit values may name the layer's own directories: `$L` stands for the layer path
    let ins: Vec<Ins> = parse_ins(&f[1]).into_iter().map(|(s, b, n, v)| (s, b, n, replace(&v, b"$L", &lp))).collect();
    let names: Vec<Vec<u8>> = split_list(&f[2], ",").iter().map(|n| unhex(n).unwrap()).collect();
    let start: Option<Vec<(Vec<u8>, Vec<u8>)>> = if f.len() == 5 && f[3] != "-" {
        Some(split_list(&f[3], ",").iter().map(|kv| { let (k, v) = kv.split_once('=').unwrap(); (unhex(k).unwrap(), unhex(v).unwrap()) }).collect())
    } else { None };
    if build(&ins).write_to_layer_dir(layer).is_err() { return "err:io".into(); }
    let mut snaps = vec![env_snap(layer)];
    let le = match LayerEnv::read_from_layer_dir(layer) { Ok(le) => le, Err(_) => return "probes=err:io".into() };
    let pr = probes(&le, &names, layer, start.as_deref());
    for _ in 0..3 {
        match LayerEnv::read_from_layer_dir(layer) {
            Ok(le) => { if le.write_to_layer_dir(layer).is_err() { snaps.push("err:io".into()); break; } snaps.push(env_snap(layer)); }
            Err(_) => { snaps.push("err:io".into()); break; }
        }
    }
    format!("probes={pr};cycles={}", snaps.join("#"))
}

fn generate(tier: &str, seed: u64, emit: &mut dyn FnMut(Case)) {
    let kinds = KINDS6;
    let path = hex(b"PATH"); let ld = hex(b"LD_LIBRARY_PATH"); let cpath = hex(b"CPATH");
    let explicit: Vec<(String, &str)> = vec![
        ("-".into(), "none"),
        (format!("A/a/{path}/2f61,A/m/{path}/3b,B/o/{ld}/2f6c,L/p/{cpath}/2f63"), "mixed"),
        (format!("B/o/{path}/2f6f,L/a/{path}/2f6c61,P:776562/p/{path}/2f7072,A/d/{ld}/"), "path"),
    ];
    let explicit: Vec<(String, &str)> = if tier == "thorough" { let mut e = explicit; e.push((format!("B/m/{path}/3b,L/m/{ld}/2c,B/d/{cpath}/78,P:776f726b6572/o/{ld}/79"), "delims")); e } else { explicit };
    let names = join(",", &[path.clone(), ld.clone(), cpath.clone(), hex(b"LIBRARY_PATH"), hex(b"PKG_CONFIG_PATH"), hex(b"OTHER")]);
    for a in kinds { for b in kinds { for c in kinds { for d in kinds {
        let k: String = [a, b, c, d].iter().collect();
        let ndirs = k.chars().filter(|c| *c == 'd' || *c == 'D').count();
        for (e, ename) in &explicit {
            emit(Case { fields: vec![k.clone(), e.clone(), names.clone()], tags: vec![("kind".into(), format!("exh-{ename}")), ("ndirs".into(), ndirs.to_string())], nontrivial: ndirs > 0 });
        }
    } } } }
    // sampled: random kinds with random explicit entries on the path variables (all behaviours, all scopes incl. process types
    // named like the phases, delimiters with several bytes / line breaks, empty values)
    let vars: [&[u8]; 6] = [b"PATH", b"LD_LIBRARY_PATH", b"LIBRARY_PATH", b"CPATH", b"PKG_CONFIG_PATH", b"OTHER"];
    let vals: [&[u8]; 7] = [b"", b"/x", b"/a:/b", b":", b";\n", b"::", b"\xff"];
    let scopes = ["A", "B", "L", "P:776562", "P:6275696c64", "P:6c61756e6368"];
    let n = if tier == "thorough" { 6000 } else { 600 };
    for idx in 0..n {
        let mut r = Rng::for_case(seed, idx);
        let k: String = (0..4).map(|_| *r.pick(&kinds)).collect();
        let m = r.below(6);
        let ins: Vec<String> = (0..m).map(|_| format!("{}/{}/{}/{}", r.pick(&scopes), r.pick(&["a", "d", "m", "o", "p"]), hex(*r.pick(&vars)), hex(*r.pick(&vals)))).collect();
        let ndirs = k.chars().filter(|c| *c == 'd' || *c == 'D').count();
        emit(Case { fields: vec![k, join(",", &ins), names.clone()], tags: vec![("kind".into(), "rnd".into()), ("ndirs".into(), ndirs.to_string()), ("n_ins".into(), m.to_string())], nontrivial: ndirs > 0 && m > 0 });
    }
    generate_more(tier, seed, emit, &names);
}

/// values a path-list variable may start with / be given explicitly: unset is separate; empty; plain; with empty components
/// (leading, trailing, doubled separator, the separator alone); the layer's own directories; non-UTF-8; long; other separators
fn value_pool() -> Vec<Vec<u8>> {
    let mut v: Vec<Vec<u8>> = [&b""[..], b"0", b"/usr/bin", b":", b"/usr/bin:", b":/opt/lib", b"/a::/b", b"::", b"$L/bin", b"$L/bin:/usr/bin", b"/usr/bin:$L/lib", b"$L/include", b"\xff\xfe", b"with space", b";", b"a\nb", b"$L"].iter().map(|x| x.to_vec()).collect();
    v.push(vec![b'x'; 300]);
    v
}
/// variable names one edit away from the five path variables (none of them may receive an implicit entry)
fn near_names() -> Vec<Vec<u8>> {
    let mut v: Vec<Vec<u8>> = [&b"path"[..], b"Path", b"PATH2", b"XPATH", b"PATH.", b"_PATH", b"LD_LIBRARY_PATH64", b"LD_LIBRARY_PAT", b"LIBRARY_PATH_", b"ld_library_path", b"CPATH ", b"PKG_CONFIG_PATH.d", b"PKG_CONFIG", b"PATH\xff", "P\u{c4}TH".as_bytes(), b"PATH=x"].iter().map(|x| x.to_vec()).collect();
    v.push(vec![b'P'; 200]);
    v
}

fn generate_more(tier: &str, seed: u64, emit: &mut dyn FnMut(Case), names6: &str) {
    let thorough = tier == "thorough";
    let vars: [&[u8]; 5] = [b"PATH", b"LD_LIBRARY_PATH", b"LIBRARY_PATH", b"CPATH", b"PKG_CONFIG_PATH"];
    let path = hex(b"PATH"); let ld = hex(b"LD_LIBRARY_PATH"); let cpath = hex(b"CPATH");
    let ndirs = |k: &str| k.chars().filter(|c| kind_is_dir(*c)).count();
    let mk = |k: &str, ins: &str, names: &str, start: &str, flags: &str, kind: &str, extra: Vec<(&str, String)>| {
        let n_ins = split_list(ins, ",").len();
        let mut tags = vec![("kind".to_string(), kind.to_string()), ("ndirs".to_string(), ndirs(k).to_string()), ("n_ins".to_string(), n_ins.min(200).to_string()), ("start".to_string(), u8::from(start != "-").to_string()), ("flags".to_string(), flags.to_string())];
        tags.extend(extra.into_iter().map(|(a, b)| (a.to_string(), b)));
        Case { fields: vec![k.to_string(), ins.to_string(), names.to_string(), start.to_string(), flags.to_string()], tags, nontrivial: ndirs(k) > 0 }
    };
    let mixed = format!("A/a/{path}/2f61,A/m/{path}/3b,B/o/{ld}/2f6c,L/p/{cpath}/2f63");
    // A. every further kind in every position, the other three all absent / all directories
    for k in ['e', 'C', 'r', 'm', 'l', 'p'] { for pos in 0..4 { for other in ['a', 'd'] {
        let ks: String = (0..4).map(|i| if i == pos { k } else { other }).collect();
        for ins in ["-", mixed.as_str()] { emit(mk(&ks, ins, names6, "-", "-", "kinds2", vec![])); }
    } } }
    // B. starting environments that define the path variables with every value of the pool (all six names the same value)
    let pool = value_pool();
    let explicit_path = format!("B/o/{path}/2f6f,L/a/{path}/2f6c61,P:776562/p/{path}/2f7072,A/d/{ld}/");
    for (vi, v) in pool.iter().enumerate() { for ks in ["dddd", "DDDD", "adad", "aaaa"] { for ins in ["-", explicit_path.as_str()] {
        let start = join(",", &split_list(names6, ",").iter().map(|n| format!("{n}={}", hex(v))).collect::<Vec<_>>());
        emit(mk(ks, ins, names6, &start, "-", "start", vec![("value", vi.to_string())]));
    } } }
    // C. explicit entries whose value is the implicit entry itself (or contains it), every behaviour, with and without the
    //    same value in the starting environment
    for beh in ["a", "d", "o", "p"] { for sc in ["A", "B", "L"] { for ks in ["dddd", "aaaa"] { for st in ["-", "own"] {
        let ins = format!("{sc}/{beh}/{path}/{},{sc}/{beh}/{ld}/{},{sc}/{beh}/{cpath}/{}", hex(b"$L/bin"), hex(b"$L/lib:/x"), hex(b"$L/include"));
        let start = if st == "-" { "-".to_string() } else { format!("{path}={},{ld}={}", hex(b"$L/bin"), hex(b"/y:$L/lib")) };
        emit(mk(ks, &ins, names6, &start, "-", "selfref", vec![]));
    } } } }
    // D. variable names one edit away from the path variables: explicit entries, probes and starting values on them
    for n in near_names() {
        let hn = hex(&n);
        let names = format!("{names6},{hn}");
        let ins = format!("A/a/{hn}/2f61,B/p/{hn}/2f62,L/o/{hn}/2f63,A/m/{hn}/3a");
        // the near name next to delimiters of the real variables in the same directories (a delimiter must not leak to it)
        let ins2 = format!("A/m/{path}/3a,A/m/{ld}/3b,A/a/{hn}/2f61,A/p/{hn}/2f62,B/m/{cpath}/2c,B/m/{}/7c,B/a/{hn}/2f63,L/m/{}/2b,L/p/{hn}/2f64", hex(b"LIBRARY_PATH"), hex(b"PKG_CONFIG_PATH"));
        for (ks, start) in [("dddd", "-".to_string()), ("DdCr", format!("{hn}={},{path}={}", hex(b"/s:"), hex(b":")))] {
            emit(mk(ks, &ins, &names, &start, "-", "nearname", vec![]));
            emit(mk(ks, &ins2, &names, &start, "-", "nearname", vec![]));
            emit(mk(ks, "-", &names, &start, "-", "nearname", vec![]));
        }
    }
    // E. many explicit entries in ONE env directory (sizes on both sides of 16/20/32/64/128; `env` or `env.launch`), a few in the
    //    other scopes, among them the path variables
    let sizes: &[usize] = if thorough { &[15, 16, 17, 20, 21, 22, 31, 32, 33, 63, 64, 65, 127, 128, 129, 200] } else { &[17, 21, 33, 65, 129] };
    for (si, n) in sizes.iter().enumerate() { for (vi, (ks, main)) in [("dddd", "A"), ("DaeC", "L")].iter().enumerate() {
        let mut r = Rng::for_case(seed, 3_000_000 + (si * 2 + vi) as u64);
        let behs = ["a", "d", "m", "o", "p"];
        let mut ins: Vec<String> = (0..*n).map(|i| format!("{main}/{}/{}/{}", behs[i % 5], hex(format!("V{:03}", i / 5).as_bytes()), hex(format!("v{i}").as_bytes()))).collect();
        for sc in ["A", "B", "L", "P:776562"] { if sc != *main { ins.push(format!("{sc}/a/{}/{}", hex(b"V000"), hex(b"other"))); } }
        for v in vars { ins.push(format!("{}/{}/{}/{}", r.pick(&["A", "B", "L"]), r.pick(&["a", "p", "o"]), hex(v), hex(b"/big"))); }
        r.shuffle(&mut ins);
        let names = format!("{names6},{},{}", hex(b"V000"), hex(format!("V{:03}", (n - 1) / 5).as_bytes()));
        let start = format!("{path}={},{}={}", hex(b"/s"), hex(b"V001"), hex(b"s1"));
        emit(mk(ks, &join(",", &ins), &names, &start, "-", "big", vec![("size", n.to_string())]));
    } }
    // F. sampled: all twelve kinds, entries on path variables, near names and others with values from the pool, random starting
    //    environment (each name unset / a pool value), now and then through a symlinked layer directory
    let near = near_names();
    let scopes = ["A", "B", "L", "P:776562", "P:6275696c64", "P:6c61756e6368"];
    let n = if thorough { 6000 } else { 700 };
    for idx in 0..n {
        let mut r = Rng::for_case(seed, 2_000_000 + idx);
        let k: String = (0..4).map(|_| if r.chance(2, 3) { *r.pick(&KINDS12) } else { *r.pick(&['d', 'D', 'e', 'C']) }).collect();
        let mut pick_name = |r: &mut Rng| -> Vec<u8> { match r.below(10) { 0..=6 => r.pick(&vars).to_vec(), 7 | 8 => r.pick::<Vec<u8>>(&near).clone(), _ => b"OTHER".to_vec() } };
        let m = r.below(8);
        let ins: Vec<String> = (0..m).map(|_| { let nm = pick_name(&mut r); format!("{}/{}/{}/{}", r.pick(&scopes), r.pick(&["a", "d", "m", "o", "p"]), hex(&nm), hex(r.pick::<Vec<u8>>(&pool))) }).collect();
        let mut all_names: Vec<String> = split_list(names6, ",").iter().map(|s| s.to_string()).collect();
        for _ in 0..r.below(3) { let nm = hex(r.pick::<Vec<u8>>(&near)); if !all_names.contains(&nm) { all_names.push(nm); } }
        let start: Vec<String> = all_names.iter().filter_map(|nm| if r.chance(1, 2) { Some(format!("{nm}={}", hex(r.pick::<Vec<u8>>(&pool)))) } else { None }).collect();
        let start = if start.is_empty() && r.chance(1, 2) { "-".to_string() } else { join(",", &start) };
        let flags = if r.chance(1, 6) { "linked" } else { "-" };
        emit(mk(&k, &join(",", &ins), &all_names.join(","), &start, flags, "rnd2", vec![]));
    }
}

fn main() { main_loop_jobs("c10", 8, &generate, &run_case); }
