//! C10 correspondence: implicit layer paths of `LayerEnv::read_from_layer_dir` over all 6^4 kinds of
//! bin/lib/include/pkgconfig, with explicit entries, and read->write cycles.
use cnbv::*;
use libcnb::Env;
use libcnb::layer_env::{LayerEnv, ModificationBehavior, Scope};
use std::ffi::OsString;
use std::os::unix::ffi::{OsStrExt, OsStringExt};
use std::path::Path;

fn os(b: &[u8]) -> OsString { OsString::from_vec(b.to_vec()) }
fn parse_scope(s: &str) -> Scope {
    match s { "A" => Scope::All, "B" => Scope::Build, "L" => Scope::Launch,
        _ => Scope::Process(String::from_utf8(unhex(s.strip_prefix("P:").unwrap()).unwrap()).unwrap()) }
}
fn parse_beh(s: &str) -> ModificationBehavior {
    match s { "a" => ModificationBehavior::Append, "d" => ModificationBehavior::Default, "m" => ModificationBehavior::Delimiter,
        "o" => ModificationBehavior::Override, "p" => ModificationBehavior::Prepend, _ => panic!("beh") }
}
type Ins = (String, String, Vec<u8>, Vec<u8>);
fn parse_ins(s: &str) -> Vec<Ins> {
    split_list(s, ",").iter().map(|i| { let p: Vec<&str> = i.split('/').collect(); (p[0].to_string(), p[1].to_string(), unhex(p[2]).unwrap(), unhex(p[3]).unwrap()) }).collect()
}
fn build(ins: &[Ins]) -> LayerEnv { let mut le = LayerEnv::new(); for (s, b, n, v) in ins { le.insert(parse_scope(s), parse_beh(b), os(n), os(v)); } le }

fn env_snap(root: &Path) -> String {
    fn walk(dir: &Path, pre: &str, out: &mut Vec<String>) {
        for e in std::fs::read_dir(dir).unwrap() {
            let e = e.unwrap();
            let name = hex(e.file_name().as_bytes());
            if pre.is_empty() && !["env", "env.build", "env.launch"].contains(&e.file_name().to_str().unwrap_or("")) { continue; }
            let p = if pre.is_empty() { name } else { format!("{pre}/{name}") };
            let ft = e.file_type().unwrap();
            if ft.is_symlink() { out.push(format!("L {p}")); }
            else if ft.is_dir() { out.push(format!("D {p}")); walk(&e.path(), &p, out); }
            else { out.push(format!("F {p} {}", hex(&std::fs::read(e.path()).unwrap()))); }
        }
    }
    let mut out = vec![]; walk(root, "", &mut out); out.sort(); join(",", &out)
}
fn replace(h: &[u8], from: &[u8], to: &[u8]) -> Vec<u8> {
    let mut out = vec![]; let mut i = 0;
    while i < h.len() { if h[i..].starts_with(from) { out.extend_from_slice(to); i += from.len(); } else { out.push(h[i]); i += 1; } }
    out
}
const PROBE_SCOPES: &[&str] = &["A", "B", "L", "P:776562", "P:776f726b6572", "P:6275696c64", "P:6c61756e6368"];
fn probes(le: &LayerEnv, names: &[Vec<u8>], layer: &Path) -> String {
    let mut dn: Vec<Vec<u8>> = vec![];
    for n in names { if !dn.contains(n) { dn.push(n.clone()); } }
    let mut e1 = Env::new();
    for n in &dn { e1.insert(os(n), os(b"0")); }
    let envs = [Env::new(), e1];
    let lp = layer.as_os_str().as_bytes();
    let mut parts = vec![];
    for sc in PROBE_SCOPES { for (i, e) in envs.iter().enumerate() {
        let out = le.apply(parse_scope(sc), e);
        let mut v: Vec<(Vec<u8>, Vec<u8>)> = out.iter().map(|(k, v)| (k.as_bytes().to_vec(), replace(v.as_bytes(), lp, b"$L"))).collect();
        v.sort();
        parts.push(format!("{sc}>{i}>{}", join(",", &v.iter().map(|(k, v)| format!("{}={}", hex(k), hex(v))).collect::<Vec<_>>())));
    } }
    parts.join("|")
}

fn run_case(f: &[String]) -> String {
    let tmp = tempfile::tempdir().unwrap();
    let layer = tmp.path().join("layer");
    std::fs::create_dir(&layer).unwrap();
    std::fs::create_dir(tmp.path().join("somedir")).unwrap();
    std::fs::write(tmp.path().join("somefile"), b"x").unwrap();
    for (c, sub) in f[0].chars().zip(["bin", "lib", "include", "pkgconfig"]) {
        let p = layer.join(sub);
        match c {
            'a' => {}
            'd' => std::fs::create_dir(&p).unwrap(),
            'f' => std::fs::write(&p, b"").unwrap(),
            'D' => std::os::unix::fs::symlink(tmp.path().join("somedir"), &p).unwrap(),
            'F' => std::os::unix::fs::symlink(tmp.path().join("somefile"), &p).unwrap(),
            'x' => std::os::unix::fs::symlink(tmp.path().join("nowhere"), &p).unwrap(),
            _ => return "bad-case".into(),
        }
    }
    let ins = parse_ins(&f[1]);
    let names: Vec<Vec<u8>> = split_list(&f[2], ",").iter().map(|n| unhex(n).unwrap()).collect();
    if build(&ins).write_to_layer_dir(&layer).is_err() { return "err:io".into(); }
    let mut snaps = vec![env_snap(&layer)];
    let le = match LayerEnv::read_from_layer_dir(&layer) { Ok(le) => le, Err(_) => return "probes=err:io".into() };
    let pr = probes(&le, &names, &layer);
    for _ in 0..3 {
        match LayerEnv::read_from_layer_dir(&layer) {
            Ok(le) => { if le.write_to_layer_dir(&layer).is_err() { snaps.push("err:io".into()); break; } snaps.push(env_snap(&layer)); }
            Err(_) => { snaps.push("err:io".into()); break; }
        }
    }
    format!("probes={pr};cycles={}", snaps.join("#"))
}

fn generate(tier: &str, seed: u64, emit: &mut dyn FnMut(Case)) {
    let kinds = ['a', 'd', 'f', 'D', 'F', 'x'];
    let path = hex(b"PATH"); let ld = hex(b"LD_LIBRARY_PATH"); let cpath = hex(b"CPATH");
    let explicit: Vec<(String, &str)> = vec![
        ("-".into(), "none"),
        (format!("A/a/{path}/2f61,A/m/{path}/3b,B/o/{ld}/2f6c,L/p/{cpath}/2f63"), "mixed"),
        (format!("B/o/{path}/2f6f,L/a/{path}/2f6c61,P:776562/p/{path}/2f7072,A/d/{ld}/"), "path"),
    ];
    let explicit: Vec<(String, &str)> = if tier == "thorough" { let mut e = explicit; e.push((format!("B/m/{path}/3b,L/m/{ld}/2c,B/d/{cpath}/78,P:776f726b6572/o/{ld}/79"), "delims")); e } else { explicit };
    let names = join(",", &[path.clone(), ld.clone(), cpath.clone(), hex(b"LIBRARY_PATH"), hex(b"PKG_CONFIG_PATH"), hex(b"OTHER")]);
    for a in kinds { for b in kinds { for c in kinds { for d in kinds {
        let k: String = [a, b, c, d].iter().collect();
        let ndirs = k.chars().filter(|c| *c == 'd' || *c == 'D').count();
        for (e, ename) in &explicit {
            emit(Case { fields: vec![k.clone(), e.clone(), names.clone()], tags: vec![("kind".into(), format!("exh-{ename}")), ("ndirs".into(), ndirs.to_string())], nontrivial: ndirs > 0 });
        }
    } } } }
    // sampled: random kinds with random explicit entries on the path variables (all behaviours, all scopes incl. process types
    // named like the phases, delimiters with several bytes / line breaks, empty values)
    let vars: [&[u8]; 6] = [b"PATH", b"LD_LIBRARY_PATH", b"LIBRARY_PATH", b"CPATH", b"PKG_CONFIG_PATH", b"OTHER"];
    let vals: [&[u8]; 7] = [b"", b"/x", b"/a:/b", b":", b";\n", b"::", b"\xff"];
    let scopes = ["A", "B", "L", "P:776562", "P:6275696c64", "P:6c61756e6368"];
    let n = if tier == "thorough" { 6000 } else { 600 };
    for idx in 0..n {
        let mut r = Rng::for_case(seed, idx);
        let k: String = (0..4).map(|_| *r.pick(&kinds)).collect();
        let m = r.below(6);
        let ins: Vec<String> = (0..m).map(|_| format!("{}/{}/{}/{}", r.pick(&scopes), r.pick(&["a", "d", "m", "o", "p"]), hex(*r.pick(&vars)), hex(*r.pick(&vals)))).collect();
        let ndirs = k.chars().filter(|c| *c == 'd' || *c == 'D').count();
        emit(Case { fields: vec![k, join(",", &ins), names.clone()], tags: vec![("kind".into(), "rnd".into()), ("ndirs".into(), ndirs.to_string()), ("n_ins".into(), m.to_string())], nontrivial: ndirs > 0 && m > 0 });
    }
}

fn main() { main_loop_jobs("c10", 8, &generate, &run_case); }
