//! C05 correspondence: the real `buildpack_main!` executable (`tbp`) invoked as `detect` / `build` / another name over
//! the product of the property's quantifier. A case is an *abstract* invocation (the fields); this file materialises it
//! (temp directories, buildpack.toml, environment, pre-existing output files), runs the executable with a cleared
//! environment and reports exit status, marker files and what happened to every output path.
use cnbv::*;
use std::ffi::{OsStr, OsString};
use std::os::unix::ffi::OsStrExt;
use std::os::unix::process::CommandExt;
use std::path::{Path, PathBuf};
use std::process::{Command, Stdio};

fn tbp_path() -> PathBuf { std::env::current_exe().unwrap().parent().unwrap().join("tbp") }

const OLD: &[u8] = b"OLD-CONTENT\n";
const OLD_STORE: &[u8] = b"[metadata]\nold = true\n";
const BAD_STORE: &[u8] = b"metadata = 3\n";

/// the device every write to which fails with ENOSPC while opening it (also with O_TRUNC) succeeds
const DEV_FULL: &str = "/dev/full";
fn dev_full_ok() -> bool {
    use std::io::Write;
    match std::fs::OpenOptions::new().write(true).truncate(true).open(DEV_FULL) { Ok(mut f) => f.write_all(b"x").is_err(), Err(_) => false }
}
/// f = a file with old content, d = a directory (opening for writing fails), w = a symbolic link to /dev/full (opening
/// succeeds, every write of at least one byte fails: a WRITE-time fault, the disk-full case)
fn put_pre(path: &Path, st: char) {
    match st { 'f' => std::fs::write(path, OLD).unwrap(), 'd' => std::fs::create_dir(path).unwrap(), 'w' => std::os::unix::fs::symlink(DEV_FULL, path).unwrap(), _ => {} }
}

/// raw state of an output path after the run: a(bsent) d(ir) o(ld content) n…(the buildpack's payload) x(anything else)
/// w(still the link to the full device; never read - it would not end)
fn state(path: &Path, old: &[u8], newtok: &dyn Fn(&[u8]) -> Option<String>) -> String {
    match std::fs::symlink_metadata(path) {
        Err(_) => "a".into(),
        Ok(m) if m.file_type().is_symlink() && std::fs::read_link(path).map(|t| t == Path::new(DEV_FULL)).unwrap_or(false) => "w".into(),
        Ok(m) if m.is_dir() => "d".into(),
        Ok(_) => match std::fs::read(path) {
            Ok(b) if b == old => "o".into(),
            Ok(b) => newtok(&b).unwrap_or_else(|| "x".into()),
            Err(_) => "x".into(),
        },
    }
}

/// every top-level key of a TOML document other than `keys` is absent or an empty array / table
fn only_keys(t: &toml::value::Table, keys: &[&str]) -> bool { t.iter().all(|(k, v)| keys.contains(&k.as_str()) || matches!(v, toml::Value::Array(a) if a.is_empty()) || matches!(v, toml::Value::Table(x) if x.is_empty())) }
fn doc(b: &[u8]) -> Option<toml::value::Table> { toml::from_str::<toml::Value>(std::str::from_utf8(b).ok()?).ok()?.as_table().cloned() }
/// n = the normal payload, e = the empty / minimal document, x = the other-shape payload (see tbp.rs)
fn is_new_plan(b: &[u8]) -> Option<String> {
    let t = doc(b)?;
    if only_keys(&t, &[]) { return Some("e".into()); }
    if let Some(p) = t.get("provides").and_then(|p| p.as_array()) {
        if p.len() == 1 && p[0].as_table()?.len() == 1 && p[0].get("name")?.as_str()? == "tbp-plan" && only_keys(&t, &["provides"]) { return Some("n".into()); }
    }
    let rq = t.get("requires")?.as_array()?;
    let or = t.get("or")?.as_array()?;
    (rq.len() == 1 && rq[0].get("name")?.as_str()? == "tbp-req" && rq[0].get("metadata")?.get("v")?.as_integer()? == 1 && or.len() == 1
        && or[0].get("provides")?.as_array()?.first()?.get("name")?.as_str()? == "tbp-alt" && only_keys(&t, &["requires", "or"])).then(|| "x".to_string())
}
fn is_new_launch(b: &[u8]) -> Option<String> {
    let t = doc(b)?;
    if only_keys(&t, &[]) { return Some("e".into()); }
    if let Some(p) = t.get("processes").and_then(|p| p.as_array()) {
        let cmd = p.first()?.get("command")?.as_array()?;
        if p.len() == 1 && p[0].get("type")?.as_str()? == "tbpweb" && cmd.len() == 1 && cmd[0].as_str()? == "run" && only_keys(&t, &["processes"]) {
            // the sized variant: one padding argument; the token carries the file's length
            return match p[0].get("args") { None => Some("n".into()), Some(a) => { let a = a.as_array()?; (a.len() == 1 && a[0].as_str()?.bytes().all(|c| c == b'a') && p[0].as_table()?.len() == 3).then(|| format!("s{}", b.len())) } };
        }
    }
    let l = t.get("labels")?.as_array()?;
    let sl = t.get("slices")?.as_array()?;
    (l.len() == 1 && l[0].get("key")?.as_str()? == "tbp" && l[0].get("value")?.as_str()? == "x" && sl.len() == 1 && sl[0].get("paths")?.as_array()?.len() == 1 && only_keys(&t, &["labels", "slices"])).then(|| "x".to_string())
}
fn is_new_store(b: &[u8]) -> Option<String> {
    let t = doc(b)?;
    if only_keys(&t, &[]) { return Some("e".into()); }
    if t.len() != 1 { return None; }
    let m = t.get("metadata")?.as_table()?;
    if m.len() == 1 && m.get("tbp")?.as_str()? == "new" { return Some("n".into()); }
    if m.len() == 2 && m.get("tbp")?.as_str()? == "new" && m.get("pad").and_then(|p| p.as_str()).map(|p| p.bytes().all(|c| c == b'a')).unwrap_or(false) { return Some(format!("s{}", b.len())); }
    (m.len() == 2 && m.get("tbp")?.as_str()? == "x" && m.get("nested")?.get("a")?.as_array()?.len() == 2).then(|| "x".to_string())
}
fn is_new_sbom(b: &[u8]) -> Option<String> {
    if b.is_empty() { return Some("e".into()); }
    if let Some(k) = b.strip_prefix(&[0xff, 0x00]) { return std::str::from_utf8(k).ok()?.parse::<u32>().ok().map(|k| format!("x{k}")); }
    let s = std::str::from_utf8(b).ok()?;
    let body = s.strip_prefix("{\"tbp-sbom\":")?.strip_suffix('}')?;
    if let Some((k, pad)) = body.split_once(",\"pad\":\"") {
        let k: u32 = k.parse().ok()?;
        return pad.strip_suffix('"').filter(|p| p.bytes().all(|c| c == b'a')).map(|_| format!("s{}k{k}", b.len()));
    }
    let k: u32 = body.parse().ok()?;
    Some(format!("n{k}"))
}

const FMTS: [&str; 3] = ["cdx", "spdx", "syft"];
const VAR_NAMES: [&str; 6] = ["CNB_BUILDPACK_DIR", "CNB_TARGET_OS", "CNB_TARGET_ARCH", "CNB_TARGET_ARCH_VARIANT", "CNB_TARGET_DISTRO_NAME", "CNB_TARGET_DISTRO_VERSION"];
/// ways of writing the buildpack directory into CNB_BUILDPACK_DIR (`@<kind>`)
const BP_KINDS: [&str; 9] = ["plain", "space", "uni", "trail", "dotdot", "sym", "rel", "empty", "nonutf8"];
fn hexs(b: &[u8]) -> String { let mut s = String::with_capacity(b.len() * 2); for x in b { s.push_str(&format!("{x:02x}")); } s }
fn unhex(h: &str) -> Option<Vec<u8>> {
    if h.len() % 2 != 0 || !h.bytes().all(|c| c.is_ascii_digit() || (b'a'..=b'f').contains(&c)) { return None; }
    (0..h.len() / 2).map(|k| u8::from_str_radix(&h[2 * k..2 * k + 2], 16).ok()).collect()
}

fn run_case(f: &[String]) -> String {
    if f.len() != 9 { return "bad-fields".into(); }
    let (exe, nargs, desc, vars, ctx, dbeh, bbeh, pre, link) = (&f[0], f[1].parse::<usize>().unwrap(), &f[2], &f[3], &f[4], &f[5], &f[6], &f[7], &f[8]);
    // the environment (field 3): `<bpdir>,<os>,<arch>,<variant>,<distro name>,<distro version>[,+NAME=<hex>…]`; a target
    // variable is `-` (unset) or `=<hex>` (set to these bytes); the buildpack directory is `-` or `@<kind>` (how the path of the
    // directory holding buildpack.toml is written, see below)
    let vt: Vec<&str> = vars.split(',').collect();
    if vt.len() < 6 { return "bad-fields".into(); }
    let mut env_vals: Vec<(String, Vec<u8>)> = vec![];
    for k in 1..vt.len() {
        let (name, hx) = if k < 6 { if vt[k] == "-" { continue; } match vt[k].strip_prefix('=') { Some(h) => (VAR_NAMES[k].to_string(), h), None => return "bad-fields".into() } }
            else { match vt[k].strip_prefix('+').and_then(|x| x.split_once('=')) { Some((n, h)) if n.starts_with("CNB_") && !VAR_NAMES.contains(&n) => (n.to_string(), h), _ => return "bad-fields".into() } };
        match unhex(hx) { Some(b) if !b.contains(&0) => env_vals.push((name, b)), _ => return "bad-fields".into() }
    }
    let bpkind = vt[0];
    if !(bpkind == "-" || BP_KINDS.iter().any(|k| bpkind.strip_prefix('@') == Some(*k))) { return "bad-fields".into(); }
    let tmp = tempfile::Builder::new().prefix("c05-").tempdir().unwrap();
    let t = tmp.path();
    // name of the buildpack directory: plain, with a space, non-ASCII, or not UTF-8 at all
    let bp_name: &OsStr = match bpkind { "@space" => OsStr::new("b p"), "@uni" => OsStr::new("b\u{fc}cher-\u{5305}"), "@nonutf8" => OsStr::from_bytes(b"bp\xff"), _ => OsStr::new("bp") };
    let (bp, app, layers, plat, out, work) = (t.join(bp_name), t.join("app"), t.join("layers"), t.join("plat"), t.join("out"), t.join("work"));
    for d in [&bp, &app, &layers, &plat, &out, &work] { std::fs::create_dir(d).unwrap(); }
    // the executables live in <bp>/bin — except for the non-UTF-8 directory, where argv[0] would not be UTF-8 (an assumption
    // of this property): there they live in a sibling directory
    let bin_parent = if bpkind == "@nonutf8" { let d = t.join("bpx"); std::fs::create_dir(&d).unwrap(); d } else { bp.clone() };
    std::fs::create_dir(bin_parent.join("bin")).unwrap();
    // what CNB_BUILDPACK_DIR is set to
    let bp_value: Option<OsString> = match bpkind {
        "-" => None,
        "@trail" => { let mut v = bp.clone().into_os_string(); v.push("/"); Some(v) }
        "@dotdot" => Some(bp.join("..").join(bp_name).join(".").into_os_string()),
        "@sym" => { let l = t.join("bplink"); std::os::unix::fs::symlink(&bp, &l).unwrap(); Some(l.into_os_string()) }
        "@rel" => Some(Path::new("..").join(bp_name).into_os_string()),
        "@empty" => Some(OsString::new()),   // the empty path: buildpack.toml is looked up in the working directory
        _ => Some(bp.clone().into_os_string()),
    };
    // executable under the requested name
    let name = exe.strip_prefix("other:").unwrap_or(exe);
    // executable LAYOUT on disk (`disk`) and the way it is invoked (`invoke`); only the invoked name may decide the phase.
    //   disk: sym        bin/<name> -> the harness's `tbp` (a file with a neutral name elsewhere)
    //         copy       bin/<name> is a separate copy
    //         symn       real file bin/main.bin; detect, build and <name> are relative symlinks to it
    //         realbuild  real file bin/build; detect and <name> are relative symlinks to it (the packaged layout)
    //         realdetect real file bin/detect; build and <name> are relative symlinks to it
    //   invoke: abs (absolute path) | rel (../bp/bin/<name> from the app dir) | dotdot (../bp/./bin/../bin/<name>) |
    //           path (bare name found through $PATH) | arg0 (exec of the real file with argv[0] = <bp>/bin/<name>)
    let (disk, invoke) = link.split_once('+').unwrap_or((link.as_str(), "abs"));
    let bin = bin_parent.join("bin");
    let exe_path = bin.join(name);
    let place = |dst: &Path| { if std::fs::hard_link(tbp_path(), dst).is_err() { std::fs::copy(tbp_path(), dst).unwrap(); } };
    let link_to = |real: &str, names: &[&str]| { for n in names { if *n != real && std::fs::symlink_metadata(bin.join(n)).is_err() { std::os::unix::fs::symlink(real, bin.join(n)).unwrap(); } } };
    let real_file: PathBuf = match disk {
        "sym" => { std::os::unix::fs::symlink(tbp_path(), &exe_path).unwrap(); tbp_path() }
        "copy" => { std::fs::copy(tbp_path(), &exe_path).unwrap(); exe_path.clone() }
        "symn" => { place(&bin.join("main.bin")); link_to("main.bin", &["detect", "build", name]); bin.join("main.bin") }
        "realbuild" => { place(&bin.join("build")); link_to("build", &["detect", name]); bin.join("build") }
        "realdetect" => { place(&bin.join("detect")); link_to("detect", &["build", name]); bin.join("detect") }
        _ => return "bad-fields".into(),
    };
    // buildpack.toml
    let rest_ok = "[buildpack]\nid = \"tbp/c05\"\nversion = \"0.0.1\"\n";
    let rest_bad = "[buildpack]\nid = \"tbp/c05\"\n"; // version missing
    let d: Vec<&str> = desc.split(':').collect();
    let bt = if bpkind == "@empty" { app.join("buildpack.toml") } else { bp.join("buildpack.toml") };
    match d[0] {
        "api" => std::fs::write(&bt, format!("api = \"{}\"\n{}", d[1], if d[2] == "ok" { rest_ok } else { rest_bad })).unwrap(),
        "malformed" => std::fs::write(&bt, format!("api = \"zero.ten\"\n{rest_ok}")).unwrap(),
        "missingapi" => std::fs::write(&bt, rest_ok).unwrap(),
        "nofile" => {}
        "unreadable" => std::fs::create_dir(&bt).unwrap(),
        "nottoml" => std::fs::write(&bt, format!("api = = \"0.10\n{rest_ok}")).unwrap(),
        _ => return "bad-fields".into(),
    }
    // context inputs
    let c: Vec<&str> = ctx.split('/').collect();
    match c[1] {
        "ok" => { std::fs::create_dir(plat.join("env")).unwrap(); std::fs::write(plat.join("env/SOME_VAR"), "value").unwrap(); }
        "noenv" => {}
        _ => { std::fs::create_dir(plat.join("env")).unwrap(); std::fs::write(plat.join("env/BAD"), [0xffu8, 0xfe]).unwrap(); }
    }
    let bpplan = work.join("bpplan.toml");
    match c[2] { "ok" => std::fs::write(&bpplan, "[[entries]]\nname = \"x\"\n").unwrap(), "missing" => {}, _ => std::fs::write(&bpplan, "entries = 3\n").unwrap() }
    // pre-existing outputs
    let p: Vec<&str> = pre.split('/').collect();
    if p.len() != 5 || p[0].len() != 1 || p[1].len() != 1 || p[3].len() != 3 || p[4].len() != 3 { return "bad-fields".into(); }
    if pre.contains('w') && !dev_full_ok() { return "no-dev-full".into(); }
    let plan_path = work.join("plan.toml");
    put_pre(&plan_path, p[0].chars().next().unwrap());
    put_pre(&layers.join("launch.toml"), p[1].chars().next().unwrap());
    // store.toml is an input as well: a link to the full device would make the runtime's READ never end. `w` = a valid old
    // store that the buildpack's build code replaces by the link (TBP_STORE_FULL), i.e. the fault appears between read and write
    match p[2] { "v" | "w" => std::fs::write(layers.join("store.toml"), OLD_STORE).unwrap(), "m" => std::fs::write(layers.join("store.toml"), BAD_STORE).unwrap(), "d" => std::fs::create_dir(layers.join("store.toml")).unwrap(), _ => {} }
    let store_old: &[u8] = if p[2] == "m" { BAD_STORE } else { OLD_STORE };
    for (k, fm) in FMTS.iter().enumerate() {
        put_pre(&layers.join(format!("build.sbom.{fm}.json")), p[3].as_bytes()[k] as char);
        put_pre(&layers.join(format!("launch.sbom.{fm}.json")), p[4].as_bytes()[k] as char);
    }
    // arguments
    let s = |p: &Path| p.to_str().unwrap().to_string();
    // a wrongly named executable gets the argument list of the phase its argument count would fit (so a dispatch into
    // either phase by mistake would find valid arguments)
    let all_args: Vec<String> = if name == "build" || (name != "detect" && nargs == 3) { vec![s(&layers), s(&plat), s(&bpplan), "extra".into()] } else { vec![s(&plat), s(&plan_path), "extra1".into(), "extra2".into()] };
    let mut cmd = match invoke {
        "abs" => Command::new(&exe_path),
        "rel" => Command::new(Path::new("..").join(bin_parent.file_name().unwrap()).join("bin").join(name)),
        "dotdot" => Command::new(Path::new("..").join(bin_parent.file_name().unwrap()).join(".").join("bin").join("..").join("bin").join(name)),
        "path" => Command::new(name),
        "arg0" => { let mut c = Command::new(&real_file); c.arg0(&exe_path); c }
        _ => return "bad-fields".into(),
    };
    cmd.args(all_args.iter().take(nargs)).env_clear().current_dir(&app).stdin(Stdio::null()).stdout(Stdio::null()).stderr(Stdio::null());
    if let Some(v) = &bp_value { cmd.env(VAR_NAMES[0], v); }
    for (n, v) in &env_vals { cmd.env(n, OsStr::from_bytes(v)); }
    cmd.env("TBP_OUT", &out).env("TBP_DETECT", dbeh).env("TBP_BUILD", bbeh);
    if p[2] == "w" { cmd.env("TBP_STORE_FULL", "1"); }
    if invoke == "path" { cmd.env("PATH", &bin); }
    if c[0] == "gone" && (invoke == "rel" || invoke == "dotdot" || bpkind == "@rel" || bpkind == "@empty") { return "bad-fields".into(); }
    if c[0] == "gone" {
        // the child removes its own working directory just before exec: getcwd fails in the runtime
        let appc = app.clone();
        unsafe { cmd.pre_exec(move || std::fs::remove_dir(&appc)); }
    }
    // a freshly copied executable can be "text file busy" while another thread is between fork and exec: retry
    let status = { let mut n = 0; loop { match cmd.status() { Ok(s) => break s, Err(e) if e.raw_os_error() == Some(26) && n < 200 => { n += 1; std::thread::sleep(std::time::Duration::from_millis(5)); } Err(e) => panic!("spawn: {e}") } } };
    let exit = match status.code() { Some(c) => c.to_string(), None => "sig".into() };
    let det = out.join("detect.ran").exists();
    let bld = out.join("build.ran").exists();
    let kinds: Vec<String> = std::fs::read_to_string(out.join("on_error.count")).unwrap_or_default().lines().map(str::to_string).collect();
    let sb = |base: &str| FMTS.iter().map(|fm| state(&layers.join(format!("{base}.sbom.{fm}.json")), OLD, &is_new_sbom)).collect::<Vec<_>>().join(",");
    format!("exit={};det={};bld={};onerr={};kind={};plan={};launch={};store={};b={};l={}", exit, u8::from(det), u8::from(bld), kinds.len(),
        if kinds.is_empty() { "-".to_string() } else { kinds.join("+") },
        state(&plan_path, OLD, &is_new_plan), state(&layers.join("launch.toml"), OLD, &is_new_launch), state(&layers.join("store.toml"), store_old, &is_new_store),
        sb("build"), sb("launch"))
}

// ------------------------------------------------------------------------------------------------- generator
const DESCS: &[&str] = &["api:0.10:ok", "api:0.9:ok", "api:0.11:ok", "api:1.10:ok", "api:0.1:ok", "api:10.0:ok", "api:0.10:bad", "api:0.9:bad", "malformed", "missingapi", "nofile", "unreadable", "nottoml"];
const DESC_CLASSES: &[&str] = &["api:0.10:ok", "api:0.9:ok", "api:0.10:bad", "malformed", "missingapi", "nofile", "unreadable", "nottoml"];
const EXES: &[&str] = &["detect", "build", "other"];
const DBEHS: &[&str] = &["pass", "passplan", "passeplan", "passxplan", "fail", "err"];

const LAUNCHES: [&str; 3] = ["launch", "elaunch", "xlaunch"];
const STORES: [&str; 3] = ["store", "estore", "xstore"];
/// 16 subsets of {launch, store, build SBOMs, launch SBOMs}; the payload variant (normal / empty / other) rotates with the subset
fn subsets16() -> Vec<String> {
    (0..16usize).map(|m| { let mut it: Vec<&str> = vec![]; if m & 1 != 0 { it.push(LAUNCHES[(m / 2) % 3]); } if m & 2 != 0 { it.push(STORES[(m / 4) % 3]); } if m & 4 != 0 { it.push("b.cdx"); it.push(if m & 1 != 0 { "be.spdx" } else { "bx.spdx" }); } if m & 8 != 0 { it.push(if m & 2 != 0 { "le.spdx" } else { "l.spdx" }); it.push("lx.syft"); } format!("ok:{}", it.join(",")) }).collect()
}
fn bbehs18() -> Vec<String> { let mut v = subsets16(); v.push("err".into()); v.push("layererr".into()); v }
/// every payload variant of launch (absent + 3) x store (absent + 3) x build SBOMs (absent / set) x launch SBOMs, + error, layer error
fn bbehs66() -> Vec<String> {
    let mut v = vec![];
    for l in 0..4 { for st in 0..4 { for b in 0..2 { for ls in 0..2 {
        let mut it: Vec<&str> = vec![];
        if l > 0 { it.push(LAUNCHES[l - 1]); } if st > 0 { it.push(STORES[st - 1]); }
        if b > 0 { it.push("b.cdx"); it.push("be.spdx"); } if ls > 0 { it.push("lx.spdx"); it.push("le.syft"); }
        v.push(format!("ok:{}", it.join(",")));
    } } } }
    v.push("err".into()); v.push("layererr".into()); v
}

// ---- the environment dimension: values, not only presence
type Val = (&'static str, &'static [u8]);   // (label for the evidence, bytes)
const USUAL: [&[u8]; 5] = [b"linux", b"amd64", b"v3", b"ubuntu", b"24.04"];
/// CNB_TARGET_OS: the usual ones, the empty string, case / whitespace variants of `windows`, non-ASCII, not UTF-8
const OS_VALS: &[Val] = &[("linux", b"linux"), ("windows", b"windows"), ("darwin", b"darwin"), ("freebsd", b"freebsd"), ("empty", b""), ("Linux", b"Linux"),
    ("windows-sp", b"windows "), ("sp-windows", b" windows"), ("Windows", b"Windows"), ("WINDOWS", b"WINDOWS"), ("windows-nl", b"windows\n"), ("win", b"win"),
    ("windows-amd64", b"windows/amd64"), ("dotless", "w\u{131}ndows".as_bytes()), ("kana", "\u{30a6}\u{30a3}\u{30f3}\u{30c9}\u{30a6}\u{30ba}".as_bytes()), ("star", b"*"),
    ("nonutf8", b"\xff\xfe"), ("windows-cut", b"windows\xc3")];
const ARCH_VALS: &[Val] = &[("amd64", b"amd64"), ("arm64", b"arm64"), ("arm", b"arm"), ("empty", b""), ("x86_64", b"x86_64"), ("AMD64", b"AMD64"), ("amd64-sp", b"amd64 "),
    ("umlaut", "\u{e4}rm".as_bytes()), ("windows", b"windows"), ("nonutf8", b"\x80")];
const VARIANT_VALS: &[Val] = &[("v3", b"v3"), ("v8", b"v8"), ("v7", b"v7"), ("empty", b""), ("V8", b"V8"), ("umlaut", "\u{fc}".as_bytes()), ("windows", b"windows"), ("nonutf8", b"\xc0\xaf")];
const DNAME_VALS: &[Val] = &[("ubuntu", b"ubuntu"), ("empty", b""), ("windows", b"windows"), ("Ubuntu", b"Ubuntu"), ("alpine", b"alpine"), ("two-words", b"ubuntu linux"),
    ("cyrillic", "\u{434}\u{438}\u{441}\u{442}\u{440}\u{43e}".as_bytes()), ("scratch", b"scratch"), ("nonutf8", b"\xfe")];
const DVER_VALS: &[Val] = &[("24.04", b"24.04"), ("empty", b""), ("22.04", b"22.04"), ("winbuild", b"10.0.20348.2227"), ("rolling", b"rolling"), ("lts", b"24.04 LTS"),
    ("kanji", "\u{4e8c}\u{5341}\u{56db}".as_bytes()), ("windows", b"windows"), ("nonutf8", b"\xff")];
fn val_lists() -> [&'static [Val]; 5] { [OS_VALS, ARCH_VALS, VARIANT_VALS, DNAME_VALS, DVER_VALS] }
/// other `CNB_*` variables a lifecycle sets (the runtime reads none of them), with unusual but legitimate values
const EXTRA_SETS: &[&[(&str, &[u8])]] = &[
    &[("CNB_PLATFORM_DIR", b"/platform"), ("CNB_LAYERS_DIR", b"/layers"), ("CNB_BP_PLAN_PATH", b"/tmp/plan.toml"), ("CNB_BUILD_PLAN_PATH", b"/tmp/build plan.toml")],
    &[("CNB_PLATFORM_DIR", b""), ("CNB_STACK_ID", b"io.buildpacks.stacks.jammy")],
    &[("CNB_PLATFORM_DIR", b"/does/not/exist"), ("CNB_TARGET_ID", b"windows"), ("CNB_PLATFORM_API", b"0.14")],
    &[("CNB_TARGET_OS_", b"windows"), ("CNB_TARGET", b"windows/amd64"), ("CNB_TARGET_DISTRO", b"")],
    &[("CNB_LAYERS_DIR", b"\xff\xfe"), ("CNB_PLATFORM_DIR", "/pl\u{e4}tform dir".as_bytes())],
    &[("CNB_EXEC_ENV", b"production"), ("CNB_OUTPUT_DIR", b"."), ("CNB_APP_DIR", b"..")],
];
fn tok(v: Option<&[u8]>) -> String { match v { None => "-".into(), Some(b) => format!("={}", hexs(b)) } }
/// the environment field: buildpack-dir kind (`-` / `@kind`) and the five target variables
fn env6(bp: &str, vals: [Option<&[u8]>; 5]) -> String { let mut t = vec![bp.to_string()]; t.extend(vals.iter().map(|v| tok(*v))); t.join(",") }
fn with_extras(env: &str, set: &[(&str, &[u8])]) -> String { let mut e = env.to_string(); for (n, v) in set { e.push_str(&format!(",+{n}={}", hexs(v))); } e }
/// the short notation of the older blocks: one character per variable, `1` = set to the usual value, `e` = set to the empty
/// string (still present), `0` = unset
fn pv(p: &str) -> String {
    let b = p.as_bytes();
    let mut t = vec![if b[0] == b'0' { "-".to_string() } else { "@plain".to_string() }];
    for k in 1..6 { t.push(match b[k] { b'1' => tok(Some(USUAL[k - 1])), b'e' => tok(Some(b"")), _ => "-".into() }); }
    t.join(",")
}
/// is variable `k` provided: set, and to something the process sees as text
fn provided(vars: &str, k: usize) -> bool {
    let t = vars.split(',').nth(k).unwrap_or("-");
    if k == 0 { t != "-" && t != "@nonutf8" } else { t.strip_prefix('=').and_then(unhex).map(|b| std::str::from_utf8(&b).is_ok()).unwrap_or(false) }
}

/// which gate (in the property's sense) is closed, for the evidence distribution
fn gate_of(exe: &str, nargs: usize, desc: &str, vars: &str) -> &'static str {
    if !(desc.starts_with("api:0.10:")) { return "api"; }
    if exe != "detect" && exe != "build" { return "name"; }
    if (exe == "detect" && nargs != 2) || (exe == "build" && nargs != 3) { return "args"; }
    if ![0, 1, 2, 4, 5].iter().all(|k| provided(vars, *k)) { return "env"; }
    "open"
}

fn mk(kind: &str, exe: &str, nargs: usize, desc: &str, vars: &str, ctx: &str, dbeh: &str, bbeh: &str, pre: &str, link: &str) -> Case {
    let short = vars.len() == 6 && vars.bytes().all(|c| c == b'0' || c == b'1' || c == b'e');
    let vars: &str = &(if short { pv(vars) } else { vars.to_string() });
    let g = gate_of(exe, nargs, desc, vars);
    let phase_err = ctx != "ok/ok/ok" && !(ctx == "ok/noenv/ok") || desc.ends_with(":bad") || pre.contains('d') || pre.contains('w') || pre.contains("/m/");
    let beh = if exe == "detect" { dbeh.to_string() } else if exe == "build" { bbeh.split(':').next().unwrap().to_string() } else { "-".into() };
    // the environment for the evidence: which variables are unset / set-but-not-text, whether any value is not the usual one
    let vt: Vec<&str> = vars.split(',').collect();
    let unset: String = (0..6).map(|k| if vt[k] == "-" { '0' } else if !provided(vars, k) { 'x' } else { '1' }).collect();
    let usual = vt[0] == "@plain" && (1..6).all(|k| vt[k] == "-" || vt[k] == tok(Some(USUAL[k - 1]))) && vt.len() == 6;
    let os_label = OS_VALS.iter().find(|(_, b)| vt[1] == tok(Some(b))).map(|(l, _)| *l).unwrap_or(if vt[1] == "-" { "unset" } else { "other" });
    Case { fields: [exe, &nargs.to_string(), desc, vars, ctx, dbeh, bbeh, pre, link].iter().map(|s| s.to_string()).collect(),
        tags: vec![("kind".into(), kind.into()), ("exe".into(), exe.split(':').next().unwrap().into()), ("gate".into(), g.into()), ("beh".into(), beh), ("errsrc".into(), u8::from(phase_err).to_string()), ("link".into(), link.into()), ("emptypayload".into(), u8::from((exe == "detect" && dbeh == "passeplan") || (exe == "build" && ["elaunch", "estore", "be.", "le."].iter().any(|x| bbeh.contains(x)))).to_string()),
            ("vars".into(), unset), ("os".into(), os_label.into()), ("bpdir".into(), vt[0].trim_start_matches('@').into()), ("usualvalues".into(), u8::from(usual).to_string()), ("extravars".into(), (vt.len() - 6).to_string())],
        nontrivial: g == "open" }
}

fn right_args(exe: &str) -> usize { if exe == "build" { 3 } else { 2 } }

fn generate(tier: &str, seed: u64, emit: &mut dyn FnMut(Case)) {
    let thorough = tier == "thorough";
    let var_sets: Vec<String> = { let mut v = vec!["111111".to_string(), "000000".to_string()]; for k in 0..6 { let mut s = *b"111111"; s[k] = b'0'; v.push(String::from_utf8(s.to_vec()).unwrap()); } v };
    let rep_b = "ok:launch,store,b.cdx,l.syft";
    // A1. every gate value at every gate position, later dimensions at one representative value (outputs pre-existing,
    //     so "untouched" is distinguishable from "deleted")
    for exe in ["detect", "build", "other", "other:Detect", "other:build.sh"] {
        for desc in DESCS { for nargs in 0..5 { for vars in &var_sets {
            if exe.starts_with("other:") && (nargs != 2 || *vars != "111111") { continue; }
            emit(mk("gates", exe, nargs, desc, vars, "ok/ok/ok", "passplan", rep_b, "f/f/v/fff/fff", "sym"));
        } } }
    }
    // A2. the same gates with a failing / erroring buildpack behind them and nothing pre-existing
    for exe in EXES { for desc in DESC_CLASSES { for nargs in 0..5 { for vars in ["111111", "011111", "101111", "111101"] {
        emit(mk("gates2", exe, nargs, desc, vars, "ok/ok/ok", "fail", "err", "a/a/a/aaa/aaa", "sym"));
    } } } }
    // A3. context-assembly inputs (cwd, platform dir, buildpack plan) x variables, everything else open
    for exe in EXES { for cwd in ["ok", "gone"] { for plat in ["ok", "noenv", "bad"] { for planin in ["ok", "missing", "malformed"] { for vars in &var_sets {
        emit(mk("ctx", exe, right_args(exe), "api:0.10:ok", vars, &format!("{cwd}/{plat}/{planin}"), "passeplan", "ok:elaunch,estore,be.cdx,le.syft", "f/f/v/fff/fff", "sym"));
    } } } } }
    // A4. executable reached through a copy instead of a symlink
    for exe in EXES { for desc in ["api:0.10:ok", "api:0.9:ok", "nofile"] { for nargs in [2, 3] {
        emit(mk("copy", exe, nargs, desc, "111111", "ok/ok/ok", "passplan", rep_b, "a/f/a/afa/faf", "copy"));
    } } }
    // A5. executable layout x way of invocation: whatever the file on disk is called and however it is reached, only the
    //     invoked name decides (wrong names incl. the packaged layout where the real file is called build / detect)
    for exe in ["detect", "build", "other", "other:release"] { for disk in ["sym", "copy", "symn", "realbuild", "realdetect"] { for inv in ["abs", "rel", "dotdot", "path", "arg0"] {
        for (desc, nargs) in [("api:0.10:ok", 2), ("api:0.10:ok", 3), ("api:0.9:ok", 3)] {
            emit(mk("layout", exe, nargs, desc, "111111", "ok/ok/ok", "passplan", rep_b, "f/f/v/fff/fff", &format!("{disk}+{inv}")));
        }
    } } }
    // W. WRITE-time faults: an output path that can be opened but not written (a link to /dev/full: ENOSPC on the first byte),
    //    next to the open-time faults (`d`) of the blocks below. For every output file of both phases x payload size below / at /
    //    above the 8 KiB of a buffered writer x the subsets of the result; several faulty outputs at once; closed gates.
    //    A zero-byte payload makes no write at all (success is right there) - not generated, the driver refuses it.
    if !dev_full_ok() {
        let mut c = mk("wfault-skipped-no-dev-full", "detect", 2, "api:0.10:ok", "111111", "ok/ok/ok", "passplan", rep_b, "a/a/a/aaa/aaa", "sym");
        c.tags.push(("wfault".into(), "skipped".into()));
        emit(c);
    } else {
        let wtag = |mut c: Case, target: &str, size: &str, provided: bool| { c.tags.push(("wfault".into(), target.into())); c.tags.push(("wsize".into(), size.into())); c.tags.push(("wprovided".into(), u8::from(provided).to_string())); c };
        // W1. detect: every behaviour that is not the zero-byte plan x the plan path on the full device x optional variable x platform
        for dbeh in ["pass", "passplan", "passxplan", "fail", "err"] { for vars in ["111111", "111011"] { for plat in ["ok", "noenv", "bad"] { for descr in ["api:0.10:ok", "api:0.10:bad"] {
            emit(wtag(mk("wdetect", "detect", 2, descr, vars, &format!("ok/{plat}/ok"), dbeh, "err", "w/a/a/aaa/aaa", "sym"), "plan", "fixed", dbeh.contains("plan")));
        } } } }
        // W2. build: one faulty output (8 of them) x size of the payload going there x 16 subsets of the four result groups
        //     (the target's group absent = the faulty path is not written: success) x the other paths absent / pre-existing
        let sizes: Vec<&str> = if thorough { vec!["n", "x", "s100", "s4096", "s8190", "s8191", "s8192", "s8193", "s16384", "s65536", "s1048576"] } else { vec!["n", "x", "s8191", "s8192", "s8193", "s65536"] };
        let targets = ["launch", "store", "b.cdx", "b.spdx", "b.syft", "l.cdx", "l.spdx", "l.syft"];
        let item_for = |t: &str, sz: &str| -> String {
            let sized = sz.starts_with('s');
            match t {
                "launch" => if sized { format!("slaunch{}", &sz[1..]) } else if sz == "x" { "xlaunch".into() } else { "launch".into() },
                "store" => if sized { format!("sstore{}", &sz[1..]) } else if sz == "x" { "xstore".into() } else { "store".into() },
                _ => { let (side, fm) = t.split_once('.').unwrap(); format!("{side}{}.{fm}", if sized { sz } else if sz == "x" { "x" } else { "" }) }
            }
        };
        let pre_with = |ws: &[&str], other: char| -> String {
            let one = |t: &str| if ws.contains(&t) { 'w' } else { other };
            format!("{}/{}/{}/{}/{}", other, one("launch"), if ws.contains(&"store") { 'w' } else if other == 'f' { 'v' } else { 'a' },
                FMTS.iter().map(|f| one(&format!("b.{f}"))).collect::<String>(), FMTS.iter().map(|f| one(&format!("l.{f}"))).collect::<String>())
        };
        for (ti, t) in targets.iter().enumerate() { for (si, sz) in sizes.iter().enumerate() { for m in 0..16usize {
            let group = match *t { "launch" => 0, "store" => 1, x if x.starts_with('b') => 2, _ => 3 };
            let provided = m >> group & 1 == 1;
            let mut it: Vec<String> = vec![];
            let other_sz = |g: usize| sizes[(si + g + m) % sizes.len()];
            if m & 1 != 0 { it.push(if group == 0 { item_for(t, sz) } else { item_for("launch", other_sz(0)) }); }
            if m & 2 != 0 { it.push(if group == 1 { item_for(t, sz) } else { item_for("store", other_sz(1)) }); }
            if m & 4 != 0 { for f in FMTS { let n = format!("b.{f}"); if group == 2 && n == *t { it.push(item_for(t, sz)); } else if (m + ti + si) % 3 != 0 || group != 2 { it.push(item_for(&n, other_sz(2))); } } }
            if m & 8 != 0 { for f in FMTS { let n = format!("l.{f}"); if group == 3 && n == *t { it.push(item_for(t, sz)); } else if (m + ti + si) % 3 != 1 || group != 3 { it.push(item_for(&n, other_sz(3))); } } }
            let pre = pre_with(&[*t], if (m + si) % 2 == 0 { 'f' } else { 'a' });
            emit(wtag(mk("wbuild", "build", 3, "api:0.10:ok", if m % 5 == 0 { "111011" } else { "111111" }, "ok/ok/ok", "pass", &format!("ok:{}", it.join(",")), &pre, "sym"), t, sz, provided));
        } } }
        // W3. every SET of faulty outputs (256) with the complete result (the first failing write decides) and with a sparse one
        for wm in 0..256usize {
            let ws: Vec<&str> = targets.iter().enumerate().filter(|(k, _)| wm >> k & 1 == 1).map(|(_, t)| *t).collect();
            let sz = sizes[wm % sizes.len()];
            let full: Vec<String> = targets.iter().map(|t| item_for(t, sz)).collect();
            emit(wtag(mk("wsets", "build", 3, "api:0.10:ok", "111111", "ok/ok/ok", "pass", &format!("ok:{}", full.join(",")), &pre_with(&ws, 'f'), "sym"), &format!("set{}", ws.len()), sz, !ws.is_empty()));
            let sparse: Vec<String> = targets.iter().enumerate().filter(|(k, _)| (wm * 7 + k * 3) % 4 == 0).map(|(_, t)| item_for(t, sz)).collect();
            let hit = targets.iter().enumerate().any(|(k, t)| (wm * 7 + k * 3) % 4 == 0 && ws.contains(t));
            emit(wtag(mk("wsets", "build", 3, "api:0.10:ok", "111111", "ok/ok/ok", "pass", &format!("ok:{}", sparse.join(",")), &pre_with(&ws, 'a'), "sym"), &format!("set{}", ws.len()), sz, hit));
        }
        // W4. the same format provided twice onto a faulty path; build error / layer error beside faulty paths (nothing is written)
        for (bbeh, prov) in [("ok:b.cdx,bs8191.cdx,l.syft", true), ("ok:l.spdx,lx.spdx,ls9000.spdx", true), ("ok:launch,slaunch8192,xlaunch,store,sstore8191", true), ("err", false), ("layererr", false), ("ok:", false)] {
            for pre in ["a/w/w/www/www", "w/w/w/www/www", "f/w/v/www/aaa", "f/f/w/fff/www"] {
                emit(wtag(mk("wrepeat", "build", 3, "api:0.10:ok", "111111", "ok/ok/ok", "pass", bbeh, pre, "sym"), "several", "mixed", prov));
            }
        }
        // W5. closed gates and context errors in front of faulty paths: nothing may be written, so no write can fail
        for exe in EXES { for (desc, nargs, vars, ctx) in [("api:0.9:ok", 9, "111111", "ok/ok/ok"), ("api:0.10:ok", 1, "111111", "ok/ok/ok"), ("api:0.10:ok", 9, "101111", "ok/ok/ok"), ("api:0.10:ok", 9, "011111", "ok/ok/ok"),
                ("api:0.10:bad", 9, "111111", "ok/ok/ok"), ("api:0.10:ok", 9, "111111", "gone/ok/ok"), ("api:0.10:ok", 9, "111111", "ok/bad/ok"), ("api:0.10:ok", 9, "111111", "ok/ok/missing"), ("api:0.10:ok", 9, "111111", "ok/ok/ok")] {
            let n = if nargs == 9 { right_args(exe) } else { nargs };
            emit(wtag(mk("wgates", exe, n, desc, vars, ctx, "passplan", "ok:launch,store,b.cdx,l.syft", "w/w/w/www/www", "sym"), "all", "fixed", false));
        } }
        // W6. random: result lists of non-empty items (fixed and sized) against random pre-states in which every path is faulty 1 in 4
        let witems = ["launch", "xlaunch", "slaunch8191", "slaunch8192", "slaunch300", "store", "estore", "xstore", "sstore8191", "sstore8193", "sstore70000", "b.cdx", "b.spdx", "bx.syft", "bx.cdx", "bs8191.cdx", "bs8192.spdx", "bs8193.syft", "bs100.cdx", "bs65536.spdx",
            "l.cdx", "l.syft", "lx.spdx", "ls8191.syft", "ls8192.cdx", "ls20000.spdx", "ls8193.cdx"];
        let n_w6 = if thorough { 6000 } else { 500 };
        for idx in 0..n_w6 {
            let mut r = Rng::for_case(seed ^ 0xF0_11, idx);
            let n = r.below(8) as usize;
            let it: Vec<&str> = (0..n).map(|_| *r.pick(&witems)).collect();
            let pc = |r: &mut Rng| *r.pick(&['a', 'f', 'w', 'w', 'f', 'a', 'd', 'f']);
            let three = |r: &mut Rng| (0..3).map(|_| pc(r)).collect::<String>();
            let pre = format!("{}/{}/{}/{}/{}", pc(&mut r), pc(&mut r), r.pick(&["a", "v", "w", "w", "v", "m", "d", "a"]), three(&mut r), three(&mut r));
            let nw = pre.matches('w').count();
            let (exe, dbeh) = if r.chance(1, 6) { ("detect", *r.pick(&["pass", "passplan", "passxplan", "fail", "err"])) } else { ("build", "passplan") };
            emit(wtag(mk("wrnd", exe, right_args(exe), "api:0.10:ok", if r.chance(1, 2) { "111111" } else { "111011" }, &format!("ok/{}/ok", r.pick(&["ok", "noenv"])), dbeh, &format!("ok:{}", it.join(",")), &pre, *r.pick(&["sym", "symn+rel", "realbuild+path"])), &format!("rnd{nw}"), "mixed", nw > 0));
        }
    }
    // V. the VALUES of the variables as a dimension, crossed with which variables are set. A requirement may not depend on what
    //    another variable holds: whatever CNB_TARGET_OS (…) says, a missing mandatory variable closes the gate, and no value closes it.
    let lists = val_lists();
    let usual: [Option<&[u8]>; 5] = [Some(USUAL[0]), Some(USUAL[1]), Some(USUAL[2]), Some(USUAL[3]), Some(USUAL[4])];
    let full_pre = "f/f/v/fff/fff";
    // `absent` = None: all set; Some(0): buildpack dir unset; Some(k): target variable k unset
    let with_absent = |mut vals: [Option<&'static [u8]>; 5], absent: Option<usize>| -> String {
        let bp = if absent == Some(0) { "-" } else { "@plain" };
        if let Some(k) = absent { if k > 0 { vals[k - 1] = None; } }
        env6(bp, vals)
    };
    let absents: Vec<Option<usize>> = std::iter::once(None).chain((0..6).map(Some)).collect();
    // V1. every value of every variable x every single variable unset (and none unset) x both phases; the other variables
    //     at their usual values
    for exe in ["detect", "build"] { for (j, list) in lists.iter().enumerate() { for (_, v) in list.iter() { for ab in &absents {
        if j > 0 && *v == USUAL[j] { continue; }   // the usual value of a non-OS variable is in the OS sweep already
        let mut vals = usual; vals[j] = Some(*v);
        emit(mk("val1", exe, right_args(exe), "api:0.10:ok", &with_absent(vals, *ab), "ok/ok/ok", "passplan", rep_b, full_pre, "sym"));
    } } } }
    // V2. every OS value x every architecture value (variant / distro values rotating), everything set: no value closes a gate
    for exe in ["detect", "build"] { for (a, (_, os)) in OS_VALS.iter().enumerate() { for (b, (_, arch)) in ARCH_VALS.iter().enumerate() {
        let vals = [Some(*os), Some(*arch), if (a + b) % 3 == 0 { None } else { Some(VARIANT_VALS[(a + b) % VARIANT_VALS.len()].1) }, Some(DNAME_VALS[(a + 2 * b) % DNAME_VALS.len()].1), Some(DVER_VALS[(2 * a + b) % DVER_VALS.len()].1)];
        emit(mk("val2", exe, right_args(exe), "api:0.10:ok", &env6("@plain", vals), "ok/ok/ok", "passxplan", "ok:xlaunch,store,bx.spdx,le.cdx", "a/a/a/aaa/aaa", "sym"));
    } } }
    // V3. every way of writing the buildpack directory x every single variable unset x two OS values x both phases, and x every
    //     buildpack.toml class (the descriptor lives where the variable says)
    for exe in ["detect", "build"] { for bpk in BP_KINDS { for ab in &absents { for os in [&b"linux"[..], &b"windows"[..]] {
        if *ab == Some(0) && bpk != "plain" { continue; }
        let mut vals = usual; vals[0] = Some(os);
        let e = with_absent(vals, *ab);
        let e = if *ab == Some(0) { e } else { e.replacen("@plain", &format!("@{bpk}"), 1) };
        emit(mk("bpdir", exe, right_args(exe), "api:0.10:ok", &e, "ok/ok/ok", "passplan", rep_b, full_pre, "sym"));
    } } } }
    for exe in EXES { for bpk in BP_KINDS { for desc in DESC_CLASSES { for nargs in [2usize, 3] {
        emit(mk("bpdir2", exe, nargs, desc, &env6(&format!("@{bpk}"), usual), "ok/ok/ok", "passeplan", "ok:elaunch,estore", full_pre, "symn+rel"));
    } } } }
    // V4. other CNB_* variables set to unusual values x every single variable unset x OS in {linux, windows} x both phases
    for exe in ["detect", "build"] { for set in EXTRA_SETS { for ab in &absents { for os in [&b"linux"[..], &b"windows"[..]] {
        let mut vals = usual; vals[0] = Some(os);
        emit(mk("extra", exe, right_args(exe), "api:0.10:ok", &with_extras(&with_absent(vals, *ab), set), "ok/ok/ok", "passplan", rep_b, full_pre, "sym"));
    } } } }
    // V5 (thorough). every SET of unset variables (64) x every OS value x both phases (architecture / distro values rotating);
    //     every value of every non-OS variable x every PAIR of unset variables
    if thorough {
        for exe in ["detect", "build"] { for (a, (_, os)) in OS_VALS.iter().enumerate() { for vm in 0..64usize {
            let vals: [Option<&[u8]>; 5] = [Some(*os), Some(ARCH_VALS[(a + vm) % ARCH_VALS.len()].1), Some(VARIANT_VALS[(a + vm / 2) % VARIANT_VALS.len()].1), Some(DNAME_VALS[(a + vm / 3) % DNAME_VALS.len()].1), Some(DVER_VALS[(a + vm / 5) % DVER_VALS.len()].1)];
            let mut v2 = vals; for k in 1..6 { if vm >> k & 1 == 0 { v2[k - 1] = None; } }
            for pre in ["a/a/a/aaa/aaa", full_pre] {
                emit(mk("valsets", exe, right_args(exe), "api:0.10:ok", &env6(if vm & 1 == 0 { "-" } else { "@plain" }, v2), "ok/ok/ok", "passplan", rep_b, pre, "sym"));
            }
        } } }
        for exe in ["detect", "build"] { for (j, list) in lists.iter().enumerate().skip(1) { for (_, v) in list.iter() { for k1 in 0..6usize { for k2 in (k1 + 1)..6 {
            let mut vals = usual; vals[j] = Some(*v); vals[0] = Some(b"windows");
            if k1 > 0 { vals[k1 - 1] = None; } vals[k2 - 1] = None;
            emit(mk("valpairs", exe, right_args(exe), "api:0.10:ok", &env6(if k1 == 0 { "-" } else { "@plain" }, vals), "ok/ok/ok", "passplan", rep_b, full_pre, "sym"));
        } } } } }
    } else {
        // quick: the pairs of unset variables x the OS values that are some spelling of `windows`, `linux` and the empty string
        for exe in ["detect", "build"] { for (l, os) in OS_VALS.iter().filter(|(l, _)| l.to_lowercase().contains("win") || *l == "linux" || *l == "empty") { for k1 in 0..6usize { for k2 in (k1 + 1)..6 {
            let _ = l;
            let mut vals = usual; vals[0] = Some(*os);
            if k1 > 0 { vals[k1 - 1] = None; } vals[k2 - 1] = None;
            emit(mk("valpairs", exe, right_args(exe), "api:0.10:ok", &env6(if k1 == 0 { "-" } else { "@plain" }, vals), "ok/ok/ok", "passplan", rep_b, full_pre, "sym"));
        } } } }
    }
    // V6. random environments: every variable independently unset (1 in 12) or drawn from its value list; random extra variables;
    //     everything else mostly open, random behaviour and pre-existing state
    let n_v6 = if thorough { 20000 } else { 1500 };
    for idx in 0..n_v6 {
        let mut r = Rng::for_case(seed ^ 0xE5C05, idx);
        let exe = *r.pick(&["detect", "detect", "build", "build", "other"]);
        let nargs = if r.chance(9, 10) { right_args(exe) } else { r.below(5) as usize };
        let desc = if r.chance(9, 10) { "api:0.10:ok" } else { *r.pick(DESCS) };
        let mut vals: [Option<&[u8]>; 5] = [None; 5];
        for j in 0..5 { if !r.chance(1, 12) { vals[j] = Some(if r.chance(1, 3) { USUAL[j] } else { r.pick(lists[j]).1 }); } }
        let cwd_gone = r.chance(1, 20);
        let bp = if r.chance(1, 8) { "-".to_string() } else { format!("@{}", if cwd_gone { *r.pick(&BP_KINDS[..6]) } else { *r.pick(&BP_KINDS) }) };
        let mut e = env6(&bp, vals);
        if r.chance(1, 3) { e = with_extras(&e, EXTRA_SETS[r.below(EXTRA_SETS.len() as u64) as usize]); }
        let ctx = format!("{}/{}/ok", if cwd_gone { "gone" } else { "ok" }, r.pick(&["ok", "ok", "noenv"]));
        let pc = |r: &mut Rng| *r.pick(&['a', 'f', 'f']);
        let three = |r: &mut Rng| (0..3).map(|_| pc(r)).collect::<String>();
        let pre = format!("{}/{}/{}/{}/{}", pc(&mut r), pc(&mut r), r.pick(&["a", "v", "v"]), three(&mut r), three(&mut r));
        let bbeh = r.pick(&bbehs18()).clone();
        let inv = if cwd_gone { *r.pick(&["abs", "path", "arg0"]) } else { *r.pick(&["abs", "abs", "rel", "path", "arg0"]) };
        emit(mk("valrnd", exe, nargs, desc, &e, &ctx, *r.pick(DBEHS), &bbeh, &pre, &format!("{}+{inv}", r.pick(&["sym", "symn", "realbuild"]))));
    }
    // B1. all gates open: detect behaviours x pre-existing plan file x optional variable x platform
    for dbeh in DBEHS { for pp in ["a", "f", "d"] { for vars in ["111111", "111011"] { for plat in ["ok", "noenv", "bad"] { for descr in ["api:0.10:ok", "api:0.10:bad"] {
        emit(mk("detect", "detect", 2, descr, vars, &format!("ok/{plat}/ok"), dbeh, "err", &format!("{pp}/a/a/aaa/aaa"), "sym"));
    } } } } }
    // B1'. target variables that are present but empty are still present
    for exe in ["detect", "build"] { for vars in ["1e1111", "11e111", "111e11", "1111e1", "11111e", "1eeeee", "1e0111", "10e111"] {
        emit(mk("emptyvar", exe, right_args(exe), "api:0.10:ok", vars, "ok/ok/ok", "passplan", "ok:launch,estore", "f/f/v/aaa/aaa", "sym"));
    } }
    // B2. all gates open: build behaviours (launch and store each absent / normal / empty / other-shape, SBOM sets with
    //     normal, empty and binary data, error, layer error) x pre-existing outputs
    let sb_pre: Vec<&str> = if thorough { vec!["aaa", "aaf", "afa", "aff", "faa", "faf", "ffa", "fff"] } else { vec!["aaa", "fff"] };
    for bbeh in bbehs66() { for lp in ["a", "f", "d"] { for sp in ["a", "v", "m", "d"] { for bp in &sb_pre { for lp3 in &sb_pre {
        emit(mk("build", "build", 3, "api:0.10:ok", "111111", "ok/ok/ok", "pass", &bbeh, &format!("a/{lp}/{sp}/{bp}/{lp3}"), "sym"));
    } } } } }
    // B3. every set of SBOM formats on both sides x pre-existing files (incl. blocked paths)
    for bm in 0..8u32 { for lm in 0..8u32 { for pre in ["a/a/a/aaa/aaa", "f/f/v/fff/fff", "a/f/a/afd/dfa", "a/a/v/daf/fda"] {
        let mut it = vec![LAUNCHES[(bm % 3) as usize].to_string(), STORES[(lm % 3) as usize].to_string()];
        for (k, fm) in FMTS.iter().enumerate() { if bm >> k & 1 == 1 { it.push(format!("{}.{fm}", ["b", "be", "bx"][(k + bm as usize + lm as usize) % 3])); } }
        for (k, fm) in FMTS.iter().enumerate() { if lm >> k & 1 == 1 { it.push(format!("{}.{fm}", ["l", "le", "lx"][(k + bm as usize + 2 * lm as usize) % 3])); } }
        emit(mk("sbomsets", "build", 3, "api:0.10:ok", "111111", "ok/ok/ok", "pass", &format!("ok:{}", it.join(",")), pre, "sym"));
    } } }
    // B4. random result item lists (duplicates, any order) against random pre-existing states
    let items = ["launch", "elaunch", "xlaunch", "store", "estore", "xstore", "b.cdx", "b.spdx", "b.syft", "be.cdx", "be.spdx", "bx.syft", "bx.cdx", "l.cdx", "l.spdx", "l.syft", "le.cdx", "le.syft", "lx.spdx", "lx.cdx"];
    let n_b4 = if thorough { 6000 } else { 600 };
    for idx in 0..n_b4 {
        let mut r = Rng::for_case(seed, idx);
        let n = r.below(9) as usize;
        let it: Vec<&str> = (0..n).map(|_| *r.pick(&items)).collect();
        let pc = |r: &mut Rng| *r.pick(&['a', 'a', 'f', 'f', 'd']);
        let three = |r: &mut Rng| (0..3).map(|_| pc(r)).collect::<String>();
        let pre = format!("{}/{}/{}/{}/{}", pc(&mut r), pc(&mut r), r.pick(&["a", "a", "v", "v", "m", "d"]), three(&mut r), three(&mut r));
        emit(mk("sbomrnd", "build", 3, "api:0.10:ok", if r.chance(1, 2) { "111111" } else { "111011" }, "ok/ok/ok", "pass", &format!("ok:{}", it.join(",")), &pre, "sym"));
    }
    // C. the literal product of the quantifier (thorough); a seeded sample of it (quick)
    let bb = bbehs18();
    let pres = ["a/a/a/aaa/aaa", "f/f/v/fff/fff"];
    if thorough {
        for exe in EXES { for nargs in 0..5 { for desc in DESC_CLASSES { for vm in 0..64u32 {
            let vars: String = (0..6).map(|k| if vm >> k & 1 == 1 { '1' } else { '0' }).collect();
            for pre in pres {
                match *exe {
                    "detect" => for dbeh in DBEHS { emit(mk("product", exe, nargs, desc, &vars, "ok/ok/ok", dbeh, rep_b, pre, "sym")); },
                    "build" => for bbeh in &bb { emit(mk("product", exe, nargs, desc, &vars, "ok/ok/ok", "passplan", bbeh, pre, "sym")); },
                    _ => emit(mk("product", exe, nargs, desc, &vars, "ok/ok/ok", "passplan", rep_b, pre, "sym")),
                }
            }
        } } } }
    }
    let n_c = if thorough { 20000 } else { 1200 };
    for idx in 0..n_c {
        let mut r = Rng::for_case(seed ^ 0xC05, idx);
        let exe = *r.pick(&["detect", "detect", "build", "build", "build", "other", "other:release", "other:build2"]);
        let nargs = if r.chance(3, 4) { right_args(exe) } else { r.below(5) as usize };
        let desc = if r.chance(3, 4) { "api:0.10:ok" } else { *r.pick(DESCS) };
        let vars: String = (0..6).map(|_| if r.chance(9, 10) { '1' } else { '0' }).collect();
        let ctx = format!("{}/{}/{}", if r.chance(9, 10) { "ok" } else { "gone" }, r.pick(&["ok", "ok", "ok", "noenv", "bad"]), r.pick(&["ok", "ok", "ok", "missing", "malformed"]));
        let pc = |r: &mut Rng| *r.pick(&['a', 'a', 'f', 'f', 'd']);
        let three = |r: &mut Rng| (0..3).map(|_| pc(r)).collect::<String>();
        let pre = format!("{}/{}/{}/{}/{}", pc(&mut r), pc(&mut r), r.pick(&["a", "a", "v", "v", "m", "d"]), three(&mut r), three(&mut r));
        let n = r.below(6) as usize;
        let it: Vec<&str> = (0..n).map(|_| *r.pick(&items)).collect();
        let bbeh = match r.below(8) { 0 => "err".to_string(), 1 => "layererr".to_string(), _ => format!("ok:{}", it.join(",")) };
        let disk = *r.pick(&["sym", "sym", "symn", "realbuild", "realdetect"]);
        let inv = if ctx.starts_with("gone") { *r.pick(&["abs", "path", "arg0"]) } else { *r.pick(&["abs", "abs", "rel", "dotdot", "path", "arg0"]) };
        emit(mk("rnd", exe, nargs, desc, &vars, &ctx, *r.pick(DBEHS), &bbeh, &pre, &format!("{disk}+{inv}")));
    }
}

fn main() { main_loop_jobs("c05", 14, &generate, &run_case); }
