//! C05 correspondence: the real `buildpack_main!` executable (`tbp`) invoked as `detect` / `build` / another name over
//! the product of the property's quantifier. A case is an *abstract* invocation (the fields); this file materialises it
//! (temp directories, buildpack.toml, environment, pre-existing output files), runs the executable with a cleared
//! environment and reports exit status, marker files and what happened to every output path.
use cnbv::*;
use std::os::unix::process::CommandExt;
use std::path::{Path, PathBuf};
use std::process::{Command, Stdio};

fn tbp_path() -> PathBuf { std::env::current_exe().unwrap().parent().unwrap().join("tbp") }

const OLD: &[u8] = b"OLD-CONTENT\n";
const OLD_STORE: &[u8] = b"[metadata]\nold = true\n";
const BAD_STORE: &[u8] = b"metadata = 3\n";

fn put_pre(path: &Path, st: char) {
    match st { 'f' => std::fs::write(path, OLD).unwrap(), 'd' => std::fs::create_dir(path).unwrap(), _ => {} }
}

/// raw state of an output path after the run: a(bsent) d(ir) o(ld content) n…(the buildpack's payload) x(anything else)
fn state(path: &Path, old: &[u8], newtok: &dyn Fn(&[u8]) -> Option<String>) -> String {
    match std::fs::symlink_metadata(path) {
        Err(_) => "a".into(),
        Ok(m) if m.is_dir() => "d".into(),
        Ok(_) => match std::fs::read(path) {
            Ok(b) if b == old => "o".into(),
            Ok(b) => newtok(&b).unwrap_or_else(|| "x".into()),
            Err(_) => "x".into(),
        },
    }
}

/// every top-level key of a TOML document other than `keys` is absent or an empty array / table
fn only_keys(t: &toml::value::Table, keys: &[&str]) -> bool { t.iter().all(|(k, v)| keys.contains(&k.as_str()) || matches!(v, toml::Value::Array(a) if a.is_empty()) || matches!(v, toml::Value::Table(x) if x.is_empty())) }
fn doc(b: &[u8]) -> Option<toml::value::Table> { toml::from_str::<toml::Value>(std::str::from_utf8(b).ok()?).ok()?.as_table().cloned() }
/// n = the normal payload, e = the empty / minimal document, x = the other-shape payload (see tbp.rs)
fn is_new_plan(b: &[u8]) -> Option<String> {
    let t = doc(b)?;
    if only_keys(&t, &[]) { return Some("e".into()); }
    if let Some(p) = t.get("provides").and_then(|p| p.as_array()) {
        if p.len() == 1 && p[0].as_table()?.len() == 1 && p[0].get("name")?.as_str()? == "tbp-plan" && only_keys(&t, &["provides"]) { return Some("n".into()); }
    }
    let rq = t.get("requires")?.as_array()?;
    let or = t.get("or")?.as_array()?;
    (rq.len() == 1 && rq[0].get("name")?.as_str()? == "tbp-req" && rq[0].get("metadata")?.get("v")?.as_integer()? == 1 && or.len() == 1
        && or[0].get("provides")?.as_array()?.first()?.get("name")?.as_str()? == "tbp-alt" && only_keys(&t, &["requires", "or"])).then(|| "x".to_string())
}
fn is_new_launch(b: &[u8]) -> Option<String> {
    let t = doc(b)?;
    if only_keys(&t, &[]) { return Some("e".into()); }
    if let Some(p) = t.get("processes").and_then(|p| p.as_array()) {
        let cmd = p.first()?.get("command")?.as_array()?;
        if p.len() == 1 && p[0].get("type")?.as_str()? == "tbpweb" && cmd.len() == 1 && cmd[0].as_str()? == "run" && only_keys(&t, &["processes"]) { return Some("n".into()); }
    }
    let l = t.get("labels")?.as_array()?;
    let sl = t.get("slices")?.as_array()?;
    (l.len() == 1 && l[0].get("key")?.as_str()? == "tbp" && l[0].get("value")?.as_str()? == "x" && sl.len() == 1 && sl[0].get("paths")?.as_array()?.len() == 1 && only_keys(&t, &["labels", "slices"])).then(|| "x".to_string())
}
fn is_new_store(b: &[u8]) -> Option<String> {
    let t = doc(b)?;
    if only_keys(&t, &[]) { return Some("e".into()); }
    if t.len() != 1 { return None; }
    let m = t.get("metadata")?.as_table()?;
    if m.len() == 1 && m.get("tbp")?.as_str()? == "new" { return Some("n".into()); }
    (m.len() == 2 && m.get("tbp")?.as_str()? == "x" && m.get("nested")?.get("a")?.as_array()?.len() == 2).then(|| "x".to_string())
}
fn is_new_sbom(b: &[u8]) -> Option<String> {
    if b.is_empty() { return Some("e".into()); }
    if let Some(k) = b.strip_prefix(&[0xff, 0x00]) { return std::str::from_utf8(k).ok()?.parse::<u32>().ok().map(|k| format!("x{k}")); }
    let s = std::str::from_utf8(b).ok()?;
    let k: u32 = s.strip_prefix("{\"tbp-sbom\":")?.strip_suffix('}')?.parse().ok()?;
    Some(format!("n{k}"))
}

const FMTS: [&str; 3] = ["cdx", "spdx", "syft"];

fn run_case(f: &[String]) -> String {
    if f.len() != 9 { return "bad-fields".into(); }
    let (exe, nargs, desc, vars, ctx, dbeh, bbeh, pre, link) = (&f[0], f[1].parse::<usize>().unwrap(), &f[2], f[3].as_bytes(), &f[4], &f[5], &f[6], &f[7], &f[8]);
    let tmp = tempfile::Builder::new().prefix("c05-").tempdir().unwrap();
    let t = tmp.path();
    let (bp, app, layers, plat, out, work) = (t.join("bp"), t.join("app"), t.join("layers"), t.join("plat"), t.join("out"), t.join("work"));
    for d in [&bp, &app, &layers, &plat, &out, &work] { std::fs::create_dir(d).unwrap(); }
    std::fs::create_dir(bp.join("bin")).unwrap();
    // executable under the requested name
    let name = exe.strip_prefix("other:").unwrap_or(exe);
    // executable LAYOUT on disk (`disk`) and the way it is invoked (`invoke`); only the invoked name may decide the phase.
    //   disk: sym        bin/<name> -> the harness's `tbp` (a file with a neutral name elsewhere)
    //         copy       bin/<name> is a separate copy
    //         symn       real file bin/main.bin; detect, build and <name> are relative symlinks to it
    //         realbuild  real file bin/build; detect and <name> are relative symlinks to it (the packaged layout)
    //         realdetect real file bin/detect; build and <name> are relative symlinks to it
    //   invoke: abs (absolute path) | rel (../bp/bin/<name> from the app dir) | dotdot (../bp/./bin/../bin/<name>) |
    //           path (bare name found through $PATH) | arg0 (exec of the real file with argv[0] = <bp>/bin/<name>)
    let (disk, invoke) = link.split_once('+').unwrap_or((link.as_str(), "abs"));
    let bin = bp.join("bin");
    let exe_path = bin.join(name);
    let place = |dst: &Path| { if std::fs::hard_link(tbp_path(), dst).is_err() { std::fs::copy(tbp_path(), dst).unwrap(); } };
    let link_to = |real: &str, names: &[&str]| { for n in names { if *n != real && std::fs::symlink_metadata(bin.join(n)).is_err() { std::os::unix::fs::symlink(real, bin.join(n)).unwrap(); } } };
    let real_file: PathBuf = match disk {
        "sym" => { std::os::unix::fs::symlink(tbp_path(), &exe_path).unwrap(); tbp_path() }
        "copy" => { std::fs::copy(tbp_path(), &exe_path).unwrap(); exe_path.clone() }
        "symn" => { place(&bin.join("main.bin")); link_to("main.bin", &["detect", "build", name]); bin.join("main.bin") }
        "realbuild" => { place(&bin.join("build")); link_to("build", &["detect", name]); bin.join("build") }
        "realdetect" => { place(&bin.join("detect")); link_to("detect", &["build", name]); bin.join("detect") }
        _ => return "bad-fields".into(),
    };
    // buildpack.toml
    let rest_ok = "[buildpack]\nid = \"tbp/c05\"\nversion = \"0.0.1\"\n";
    let rest_bad = "[buildpack]\nid = \"tbp/c05\"\n"; // version missing
    let d: Vec<&str> = desc.split(':').collect();
    let bt = bp.join("buildpack.toml");
    match d[0] {
        "api" => std::fs::write(&bt, format!("api = \"{}\"\n{}", d[1], if d[2] == "ok" { rest_ok } else { rest_bad })).unwrap(),
        "malformed" => std::fs::write(&bt, format!("api = \"zero.ten\"\n{rest_ok}")).unwrap(),
        "missingapi" => std::fs::write(&bt, rest_ok).unwrap(),
        "nofile" => {}
        "unreadable" => std::fs::create_dir(&bt).unwrap(),
        "nottoml" => std::fs::write(&bt, format!("api = = \"0.10\n{rest_ok}")).unwrap(),
        _ => return "bad-fields".into(),
    }
    // context inputs
    let c: Vec<&str> = ctx.split('/').collect();
    match c[1] {
        "ok" => { std::fs::create_dir(plat.join("env")).unwrap(); std::fs::write(plat.join("env/SOME_VAR"), "value").unwrap(); }
        "noenv" => {}
        _ => { std::fs::create_dir(plat.join("env")).unwrap(); std::fs::write(plat.join("env/BAD"), [0xffu8, 0xfe]).unwrap(); }
    }
    let bpplan = work.join("bpplan.toml");
    match c[2] { "ok" => std::fs::write(&bpplan, "[[entries]]\nname = \"x\"\n").unwrap(), "missing" => {}, _ => std::fs::write(&bpplan, "entries = 3\n").unwrap() }
    // pre-existing outputs
    let p: Vec<&str> = pre.split('/').collect();
    let plan_path = work.join("plan.toml");
    put_pre(&plan_path, p[0].chars().next().unwrap());
    put_pre(&layers.join("launch.toml"), p[1].chars().next().unwrap());
    match p[2] { "v" => std::fs::write(layers.join("store.toml"), OLD_STORE).unwrap(), "m" => std::fs::write(layers.join("store.toml"), BAD_STORE).unwrap(), "d" => std::fs::create_dir(layers.join("store.toml")).unwrap(), _ => {} }
    let store_old: &[u8] = if p[2] == "m" { BAD_STORE } else { OLD_STORE };
    for (k, fm) in FMTS.iter().enumerate() {
        put_pre(&layers.join(format!("build.sbom.{fm}.json")), p[3].as_bytes()[k] as char);
        put_pre(&layers.join(format!("launch.sbom.{fm}.json")), p[4].as_bytes()[k] as char);
    }
    // arguments
    let s = |p: &Path| p.to_str().unwrap().to_string();
    // a wrongly named executable gets the argument list of the phase its argument count would fit (so a dispatch into
    // either phase by mistake would find valid arguments)
    let all_args: Vec<String> = if name == "build" || (name != "detect" && nargs == 3) { vec![s(&layers), s(&plat), s(&bpplan), "extra".into()] } else { vec![s(&plat), s(&plan_path), "extra1".into(), "extra2".into()] };
    let mut cmd = match invoke {
        "abs" => Command::new(&exe_path),
        "rel" => Command::new(format!("../bp/bin/{name}")),
        "dotdot" => Command::new(format!("../bp/./bin/../bin/{name}")),
        "path" => Command::new(name),
        "arg0" => { let mut c = Command::new(&real_file); c.arg0(&exe_path); c }
        _ => return "bad-fields".into(),
    };
    cmd.args(all_args.iter().take(nargs)).env_clear().current_dir(&app).stdin(Stdio::null()).stdout(Stdio::null()).stderr(Stdio::null());
    let names = ["CNB_BUILDPACK_DIR", "CNB_TARGET_OS", "CNB_TARGET_ARCH", "CNB_TARGET_ARCH_VARIANT", "CNB_TARGET_DISTRO_NAME", "CNB_TARGET_DISTRO_VERSION"];
    let values = [s(&bp), "linux".into(), "amd64".into(), "v3".into(), "ubuntu".into(), "24.04".into()];
    // '1' = set to a usual value, 'e' = set to the empty string (still present), '0' = unset
    for k in 0..6 { if vars[k] == b'1' { cmd.env(names[k], &values[k]); } else if vars[k] == b'e' && k > 0 { cmd.env(names[k], ""); } }
    cmd.env("TBP_OUT", &out).env("TBP_DETECT", dbeh).env("TBP_BUILD", bbeh);
    if invoke == "path" { cmd.env("PATH", &bin); }
    if c[0] == "gone" && (invoke == "rel" || invoke == "dotdot") { return "bad-fields".into(); }
    if c[0] == "gone" {
        // the child removes its own working directory just before exec: getcwd fails in the runtime
        let appc = app.clone();
        unsafe { cmd.pre_exec(move || std::fs::remove_dir(&appc)); }
    }
    // a freshly copied executable can be "text file busy" while another thread is between fork and exec: retry
    let status = { let mut n = 0; loop { match cmd.status() { Ok(s) => break s, Err(e) if e.raw_os_error() == Some(26) && n < 200 => { n += 1; std::thread::sleep(std::time::Duration::from_millis(5)); } Err(e) => panic!("spawn: {e}") } } };
    let exit = match status.code() { Some(c) => c.to_string(), None => "sig".into() };
    let det = out.join("detect.ran").exists();
    let bld = out.join("build.ran").exists();
    let kinds: Vec<String> = std::fs::read_to_string(out.join("on_error.count")).unwrap_or_default().lines().map(str::to_string).collect();
    let sb = |base: &str| FMTS.iter().map(|fm| state(&layers.join(format!("{base}.sbom.{fm}.json")), OLD, &is_new_sbom)).collect::<Vec<_>>().join(",");
    format!("exit={};det={};bld={};onerr={};kind={};plan={};launch={};store={};b={};l={}", exit, u8::from(det), u8::from(bld), kinds.len(),
        if kinds.is_empty() { "-".to_string() } else { kinds.join("+") },
        state(&plan_path, OLD, &is_new_plan), state(&layers.join("launch.toml"), OLD, &is_new_launch), state(&layers.join("store.toml"), store_old, &is_new_store),
        sb("build"), sb("launch"))
}

// ------------------------------------------------------------------------------------------------- generator
const DESCS: &[&str] = &["api:0.10:ok", "api:0.9:ok", "api:0.11:ok", "api:1.10:ok", "api:0.1:ok", "api:10.0:ok", "api:0.10:bad", "api:0.9:bad", "malformed", "missingapi", "nofile", "unreadable", "nottoml"];
const DESC_CLASSES: &[&str] = &["api:0.10:ok", "api:0.9:ok", "api:0.10:bad", "malformed", "missingapi", "nofile", "unreadable", "nottoml"];
const EXES: &[&str] = &["detect", "build", "other"];
const DBEHS: &[&str] = &["pass", "passplan", "passeplan", "passxplan", "fail", "err"];

const LAUNCHES: [&str; 3] = ["launch", "elaunch", "xlaunch"];
const STORES: [&str; 3] = ["store", "estore", "xstore"];
/// 16 subsets of {launch, store, build SBOMs, launch SBOMs}; the payload variant (normal / empty / other) rotates with the subset
fn subsets16() -> Vec<String> {
    (0..16usize).map(|m| { let mut it: Vec<&str> = vec![]; if m & 1 != 0 { it.push(LAUNCHES[(m / 2) % 3]); } if m & 2 != 0 { it.push(STORES[(m / 4) % 3]); } if m & 4 != 0 { it.push("b.cdx"); it.push(if m & 1 != 0 { "be.spdx" } else { "bx.spdx" }); } if m & 8 != 0 { it.push(if m & 2 != 0 { "le.spdx" } else { "l.spdx" }); it.push("lx.syft"); } format!("ok:{}", it.join(",")) }).collect()
}
fn bbehs18() -> Vec<String> { let mut v = subsets16(); v.push("err".into()); v.push("layererr".into()); v }
/// every payload variant of launch (absent + 3) x store (absent + 3) x build SBOMs (absent / set) x launch SBOMs, + error, layer error
fn bbehs66() -> Vec<String> {
    let mut v = vec![];
    for l in 0..4 { for st in 0..4 { for b in 0..2 { for ls in 0..2 {
        let mut it: Vec<&str> = vec![];
        if l > 0 { it.push(LAUNCHES[l - 1]); } if st > 0 { it.push(STORES[st - 1]); }
        if b > 0 { it.push("b.cdx"); it.push("be.spdx"); } if ls > 0 { it.push("lx.spdx"); it.push("le.syft"); }
        v.push(format!("ok:{}", it.join(",")));
    } } } }
    v.push("err".into()); v.push("layererr".into()); v
}

/// which gate (in the property's sense) is closed, for the evidence distribution
fn gate_of(exe: &str, nargs: usize, desc: &str, vars: &str) -> &'static str {
    let v = vars.as_bytes();
    if !(desc.starts_with("api:0.10:")) { return "api"; }
    if exe != "detect" && exe != "build" { return "name"; }
    if (exe == "detect" && nargs != 2) || (exe == "build" && nargs != 3) { return "args"; }
    if v[0] == b'0' || v[1] == b'0' || v[2] == b'0' || v[4] == b'0' || v[5] == b'0' { return "env"; }
    "open"
}

fn mk(kind: &str, exe: &str, nargs: usize, desc: &str, vars: &str, ctx: &str, dbeh: &str, bbeh: &str, pre: &str, link: &str) -> Case {
    let g = gate_of(exe, nargs, desc, vars);
    let phase_err = ctx != "ok/ok/ok" && !(ctx == "ok/noenv/ok") || desc.ends_with(":bad") || pre.contains('d') || pre.contains("/m/");
    let beh = if exe == "detect" { dbeh.to_string() } else if exe == "build" { bbeh.split(':').next().unwrap().to_string() } else { "-".into() };
    Case { fields: [exe, &nargs.to_string(), desc, vars, ctx, dbeh, bbeh, pre, link].iter().map(|s| s.to_string()).collect(),
        tags: vec![("kind".into(), kind.into()), ("exe".into(), exe.split(':').next().unwrap().into()), ("gate".into(), g.into()), ("beh".into(), beh), ("errsrc".into(), u8::from(phase_err).to_string()), ("link".into(), link.into()), ("emptypayload".into(), u8::from((exe == "detect" && dbeh == "passeplan") || (exe == "build" && ["elaunch", "estore", "be.", "le."].iter().any(|x| bbeh.contains(x)))).to_string())],
        nontrivial: g == "open" }
}

fn right_args(exe: &str) -> usize { if exe == "build" { 3 } else { 2 } }

fn generate(tier: &str, seed: u64, emit: &mut dyn FnMut(Case)) {
    let thorough = tier == "thorough";
    let var_sets: Vec<String> = { let mut v = vec!["111111".to_string(), "000000".to_string()]; for k in 0..6 { let mut s = *b"111111"; s[k] = b'0'; v.push(String::from_utf8(s.to_vec()).unwrap()); } v };
    let rep_b = "ok:launch,store,b.cdx,l.syft";
    // A1. every gate value at every gate position, later dimensions at one representative value (outputs pre-existing,
    //     so "untouched" is distinguishable from "deleted")
    for exe in ["detect", "build", "other", "other:Detect", "other:build.sh"] {
        for desc in DESCS { for nargs in 0..5 { for vars in &var_sets {
            if exe.starts_with("other:") && (nargs != 2 || *vars != "111111") { continue; }
            emit(mk("gates", exe, nargs, desc, vars, "ok/ok/ok", "passplan", rep_b, "f/f/v/fff/fff", "sym"));
        } } }
    }
    // A2. the same gates with a failing / erroring buildpack behind them and nothing pre-existing
    for exe in EXES { for desc in DESC_CLASSES { for nargs in 0..5 { for vars in ["111111", "011111", "101111", "111101"] {
        emit(mk("gates2", exe, nargs, desc, vars, "ok/ok/ok", "fail", "err", "a/a/a/aaa/aaa", "sym"));
    } } } }
    // A3. context-assembly inputs (cwd, platform dir, buildpack plan) x variables, everything else open
    for exe in EXES { for cwd in ["ok", "gone"] { for plat in ["ok", "noenv", "bad"] { for planin in ["ok", "missing", "malformed"] { for vars in &var_sets {
        emit(mk("ctx", exe, right_args(exe), "api:0.10:ok", vars, &format!("{cwd}/{plat}/{planin}"), "passeplan", "ok:elaunch,estore,be.cdx,le.syft", "f/f/v/fff/fff", "sym"));
    } } } } }
    // A4. executable reached through a copy instead of a symlink
    for exe in EXES { for desc in ["api:0.10:ok", "api:0.9:ok", "nofile"] { for nargs in [2, 3] {
        emit(mk("copy", exe, nargs, desc, "111111", "ok/ok/ok", "passplan", rep_b, "a/f/a/afa/faf", "copy"));
    } } }
    // A5. executable layout x way of invocation: whatever the file on disk is called and however it is reached, only the
    //     invoked name decides (wrong names incl. the packaged layout where the real file is called build / detect)
    for exe in ["detect", "build", "other", "other:release"] { for disk in ["sym", "copy", "symn", "realbuild", "realdetect"] { for inv in ["abs", "rel", "dotdot", "path", "arg0"] {
        for (desc, nargs) in [("api:0.10:ok", 2), ("api:0.10:ok", 3), ("api:0.9:ok", 3)] {
            emit(mk("layout", exe, nargs, desc, "111111", "ok/ok/ok", "passplan", rep_b, "f/f/v/fff/fff", &format!("{disk}+{inv}")));
        }
    } } }
    // B1. all gates open: detect behaviours x pre-existing plan file x optional variable x platform
    for dbeh in DBEHS { for pp in ["a", "f", "d"] { for vars in ["111111", "111011"] { for plat in ["ok", "noenv", "bad"] { for descr in ["api:0.10:ok", "api:0.10:bad"] {
        emit(mk("detect", "detect", 2, descr, vars, &format!("ok/{plat}/ok"), dbeh, "err", &format!("{pp}/a/a/aaa/aaa"), "sym"));
    } } } } }
    // B1'. target variables that are present but empty are still present
    for exe in ["detect", "build"] { for vars in ["1e1111", "11e111", "111e11", "1111e1", "11111e", "1eeeee", "1e0111", "10e111"] {
        emit(mk("emptyvar", exe, right_args(exe), "api:0.10:ok", vars, "ok/ok/ok", "passplan", "ok:launch,estore", "f/f/v/aaa/aaa", "sym"));
    } }
    // B2. all gates open: build behaviours (launch and store each absent / normal / empty / other-shape, SBOM sets with
    //     normal, empty and binary data, error, layer error) x pre-existing outputs
    let sb_pre: Vec<&str> = if thorough { vec!["aaa", "aaf", "afa", "aff", "faa", "faf", "ffa", "fff"] } else { vec!["aaa", "fff"] };
    for bbeh in bbehs66() { for lp in ["a", "f", "d"] { for sp in ["a", "v", "m", "d"] { for bp in &sb_pre { for lp3 in &sb_pre {
        emit(mk("build", "build", 3, "api:0.10:ok", "111111", "ok/ok/ok", "pass", &bbeh, &format!("a/{lp}/{sp}/{bp}/{lp3}"), "sym"));
    } } } } }
    // B3. every set of SBOM formats on both sides x pre-existing files (incl. blocked paths)
    for bm in 0..8u32 { for lm in 0..8u32 { for pre in ["a/a/a/aaa/aaa", "f/f/v/fff/fff", "a/f/a/afd/dfa", "a/a/v/daf/fda"] {
        let mut it = vec![LAUNCHES[(bm % 3) as usize].to_string(), STORES[(lm % 3) as usize].to_string()];
        for (k, fm) in FMTS.iter().enumerate() { if bm >> k & 1 == 1 { it.push(format!("{}.{fm}", ["b", "be", "bx"][(k + bm as usize + lm as usize) % 3])); } }
        for (k, fm) in FMTS.iter().enumerate() { if lm >> k & 1 == 1 { it.push(format!("{}.{fm}", ["l", "le", "lx"][(k + bm as usize + 2 * lm as usize) % 3])); } }
        emit(mk("sbomsets", "build", 3, "api:0.10:ok", "111111", "ok/ok/ok", "pass", &format!("ok:{}", it.join(",")), pre, "sym"));
    } } }
    // B4. random result item lists (duplicates, any order) against random pre-existing states
    let items = ["launch", "elaunch", "xlaunch", "store", "estore", "xstore", "b.cdx", "b.spdx", "b.syft", "be.cdx", "be.spdx", "bx.syft", "bx.cdx", "l.cdx", "l.spdx", "l.syft", "le.cdx", "le.syft", "lx.spdx", "lx.cdx"];
    let n_b4 = if thorough { 6000 } else { 600 };
    for idx in 0..n_b4 {
        let mut r = Rng::for_case(seed, idx);
        let n = r.below(9) as usize;
        let it: Vec<&str> = (0..n).map(|_| *r.pick(&items)).collect();
        let pc = |r: &mut Rng| *r.pick(&['a', 'a', 'f', 'f', 'd']);
        let three = |r: &mut Rng| (0..3).map(|_| pc(r)).collect::<String>();
        let pre = format!("{}/{}/{}/{}/{}", pc(&mut r), pc(&mut r), r.pick(&["a", "a", "v", "v", "m", "d"]), three(&mut r), three(&mut r));
        emit(mk("sbomrnd", "build", 3, "api:0.10:ok", if r.chance(1, 2) { "111111" } else { "111011" }, "ok/ok/ok", "pass", &format!("ok:{}", it.join(",")), &pre, "sym"));
    }
    // C. the literal product of the quantifier (thorough); a seeded sample of it (quick)
    let bb = bbehs18();
    let pres = ["a/a/a/aaa/aaa", "f/f/v/fff/fff"];
    if thorough {
        for exe in EXES { for nargs in 0..5 { for desc in DESC_CLASSES { for vm in 0..64u32 {
            let vars: String = (0..6).map(|k| if vm >> k & 1 == 1 { '1' } else { '0' }).collect();
            for pre in pres {
                match *exe {
                    "detect" => for dbeh in DBEHS { emit(mk("product", exe, nargs, desc, &vars, "ok/ok/ok", dbeh, rep_b, pre, "sym")); },
                    "build" => for bbeh in &bb { emit(mk("product", exe, nargs, desc, &vars, "ok/ok/ok", "passplan", bbeh, pre, "sym")); },
                    _ => emit(mk("product", exe, nargs, desc, &vars, "ok/ok/ok", "passplan", rep_b, pre, "sym")),
                }
            }
        } } } }
    }
    let n_c = if thorough { 20000 } else { 1200 };
    for idx in 0..n_c {
        let mut r = Rng::for_case(seed ^ 0xC05, idx);
        let exe = *r.pick(&["detect", "detect", "build", "build", "build", "other", "other:release", "other:build2"]);
        let nargs = if r.chance(3, 4) { right_args(exe) } else { r.below(5) as usize };
        let desc = if r.chance(3, 4) { "api:0.10:ok" } else { *r.pick(DESCS) };
        let vars: String = (0..6).map(|_| if r.chance(9, 10) { '1' } else { '0' }).collect();
        let ctx = format!("{}/{}/{}", if r.chance(9, 10) { "ok" } else { "gone" }, r.pick(&["ok", "ok", "ok", "noenv", "bad"]), r.pick(&["ok", "ok", "ok", "missing", "malformed"]));
        let pc = |r: &mut Rng| *r.pick(&['a', 'a', 'f', 'f', 'd']);
        let three = |r: &mut Rng| (0..3).map(|_| pc(r)).collect::<String>();
        let pre = format!("{}/{}/{}/{}/{}", pc(&mut r), pc(&mut r), r.pick(&["a", "a", "v", "v", "m", "d"]), three(&mut r), three(&mut r));
        let n = r.below(6) as usize;
        let it: Vec<&str> = (0..n).map(|_| *r.pick(&items)).collect();
        let bbeh = match r.below(8) { 0 => "err".to_string(), 1 => "layererr".to_string(), _ => format!("ok:{}", it.join(",")) };
        let disk = *r.pick(&["sym", "sym", "symn", "realbuild", "realdetect"]);
        let inv = if ctx.starts_with("gone") { *r.pick(&["abs", "path", "arg0"]) } else { *r.pick(&["abs", "abs", "rel", "dotdot", "path", "arg0"]) };
        emit(mk("rnd", exe, nargs, desc, &vars, &ctx, *r.pick(DBEHS), &bbeh, &pre, &format!("{disk}+{inv}")));
    }
}

fn main() { main_loop_jobs("c05", 14, &generate, &run_case); }
