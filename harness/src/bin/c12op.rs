//! C12 helper: performs exactly one public-API call of libcnb on a prepared layers directory, meant to run as a child
//! process under the `faultfs.so` LD_PRELOAD shim (harness/shim/faultfs.c).
//!
//!     c12op prepare <root> <state>          build the prepared state `<state>` under <root>/fs/layers (+ <root>/srcs)
//!     c12op run <root> <op> <state>         prepare, (prelude,) ARM the shim, do the one call, DISARM, print `ok` | `err:<kind>`
//!
//! The shim is started disarmed (FAULTFS_START=disarmed); `mkdir("/@faultfs/arm")` / `…/disarm` bracket the call under test,
//! so neither the preparation nor the prelude (obtaining a `LayerRef` for the `w*` operations) is logged or faulted.
//! Inputs that libcnb keeps in a `HashMap` (exec.d programs, per-process env) have one element, so the call list is deterministic.
#![allow(deprecated)]
use cnbv::ctx::{TbError, TestBuildpack, build_context};
use libcnb::build::BuildContext;
use libcnb::data::layer::LayerName;
use libcnb::data::layer_content_metadata::LayerTypes;
use libcnb::data::sbom::SbomFormat;
use libcnb::generic::GenericMetadata;
use libcnb::layer::{CachedLayerDefinition, ExistingLayerStrategy, InvalidMetadataAction, Layer, LayerData, LayerRef, LayerResult, LayerResultBuilder, MetadataMigration, RestoredLayerAction, UncachedLayerDefinition};
use libcnb::layer_env::{LayerEnv, ModificationBehavior, Scope};
use libcnb::sbom::Sbom;
use serde::{Deserialize, Serialize};
use std::fs;
use std::path::{Path, PathBuf};

#[derive(Serialize, Deserialize, Clone, Debug)]
struct V { v: i64 }

type R<T> = libcnb::Result<T, TbError>;

fn arm() { let _ = fs::create_dir("/@faultfs/arm"); }
fn disarm() { let _ = fs::create_dir("/@faultfs/disarm"); }

const TOML_RESTORED: &str = "[metadata]\nv = 1\n";
const TOML_TYPED: &str = "[types]\nlaunch = true\nbuild = true\ncache = true\n\n[metadata]\nv = 1\n";
const TOML_INVALID: &str = "[metadata]\nw = 2\n";
const TOML_BROKEN: &str = "this is = not [toml";

/// The prepared states of the layers directory (layer name `x`). Mirrored by `CnbVerif.FsProg.prepared` in Driver/C12.lean.
fn prepare(root: &Path, state: &str) -> Result<(), String> {
    let layers = root.join("fs/layers");
    fs::create_dir_all(&layers).unwrap();
    fs::create_dir_all(root.join("srcs")).unwrap();
    fs::write(root.join("srcs/prog"), "#!/bin/sh\n").unwrap();
    let x = layers.join("x");
    let w = |p: &str, b: &str| fs::write(layers.join(p), b).unwrap();
    let d = |p: &str| fs::create_dir_all(layers.join(p)).unwrap();
    match state {
        "absent" => {}
        "orphan" => w("x.toml", TOML_RESTORED),
        "bare" => d("x"),
        "min" => { d("x"); w("x.toml", TOML_RESTORED); }
        "typed" => { d("x"); w("x.toml", TOML_TYPED); }
        "invalid" => { d("x"); d("x/data"); w("x/data/file", "f"); w("x.toml", TOML_INVALID); }
        "broken" => { d("x"); w("x.toml", TOML_BROKEN); }
        // restored by an older buildpack version: decodes as `V`, with a value the data-dependent callbacks reject
        "stale" => { d("x"); w("x.toml", "[metadata]\nv = 7\n"); d("x/env"); w("x/env/FOO.append", "a"); d("x/bin"); w("x/bin/tool", "t"); }
        "full" => {
            d("x"); w("x.toml", TOML_RESTORED);
            d("x/env"); w("x/env/FOO.append", "a");
            d("x/env.build"); w("x/env.build/BAR.default", "b");
            d("x/env.launch"); w("x/env.launch/BAZ.override", "c");
            d("x/env.launch/web"); w("x/env.launch/web/QUX.prepend", "d");
            d("x/exec.d"); w("x/exec.d/old", "#!old\n");
            d("x/bin"); w("x/bin/tool", "t");
            d("x/data/inner"); w("x/data/inner/file", "f");
            w("x.sbom.cdx.json", "{\"old\":1}"); w("x.sbom.syft.json", "{\"old\":3}");
        }
        // --- further states (mirrored by `preparedX` in Driver/C12.lean): loops over env files / process directories / exec.d
        //     programs / SBOM formats run several times, many entries, empty contents, an SBOM format "in the middle" only
        "spdx" => { d("x"); w("x.toml", TOML_RESTORED); w("x.sbom.spdx.json", "{\"old\":2}"); }
        "rich" | "richinv" => {
            d("x"); w("x.toml", if state == "rich" { TOML_RESTORED } else { TOML_INVALID });
            d("x/env"); w("x/env/FOO.append", "a"); w("x/env/FOO.delim", ":"); w("x/env/ZED.override", "z");
            d("x/env.build"); w("x/env.build/BAR.default", "b"); w("x/env.build/BAR2.prepend", "b2");
            d("x/env.launch"); w("x/env.launch/BAZ.override", "c"); w("x/env.launch/BAZ2.append", "c2");
            d("x/env.launch/web"); w("x/env.launch/web/QUX.prepend", "d"); w("x/env.launch/web/QUX2.append", "d2");
            d("x/env.launch/worker"); w("x/env.launch/worker/W.override", "w"); w("x/env.launch/worker/W2.default", "w2");
            d("x/exec.d"); w("x/exec.d/old1", "#!old1\n"); w("x/exec.d/old2", "#!old2\n");
            d("x/bin"); w("x/bin/tool", "t");
            d("x/data/inner"); w("x/data/top", "t"); w("x/data/inner/file", "f"); w("x/data/inner/file2", "g");
            w("x.sbom.cdx.json", "{\"old\":1}"); w("x.sbom.spdx.json", "{\"old\":2}"); w("x.sbom.syft.json", "{\"old\":3}");
        }
        "wide" => {
            d("x"); w("x.toml", TOML_RESTORED);
            d("x/env"); for i in 0..21 { w(&format!("x/env/E{i:02}.append"), &format!("e{i}")); }
            for i in 0..33 { w(&format!("x/f{i:02}"), &format!("{i}")); }
            d("x/exec.d"); for i in 0..17 { w(&format!("x/exec.d/p{i:02}"), &format!("#!{i}")); }
            w("x.sbom.cdx.json", "{\"old\":1}");
        }
        "emptyvals" => { d("x"); w("x.toml", TOML_RESTORED); d("x/env"); w("x/env/EMPTY.append", ""); w("x/env/FULL.append", "v"); w("x.sbom.cdx.json", ""); }
        _ => return Err(format!("unknown state {state}")),
    }
    fs::write(root.join("srcs/prog2"), "#!2\n").unwrap();
    fs::write(root.join("srcs/prog3"), "#!3\n").unwrap();
    let _ = x;
    Ok(())
}

/// the environment written by the `wenv`, `envwrite` and trait-API operations: all, launch and one process delta; no build delta
fn env1() -> LayerEnv {
    let mut e = LayerEnv::new();
    e.insert(Scope::All, ModificationBehavior::Append, "FOO", "a2");
    e.insert(Scope::Launch, ModificationBehavior::Override, "BAZ", "c2");
    e.insert(Scope::Process("web".into()), ModificationBehavior::Prepend, "QUX", "d2");
    e
}

/// several entries in every scope, two process types (mirrored by `env2` in Driver/C12.lean)
fn env2() -> LayerEnv {
    let mut e = LayerEnv::new();
    e.insert(Scope::All, ModificationBehavior::Append, "FOO", "a2");
    e.insert(Scope::All, ModificationBehavior::Delimiter, "FOO", ":");
    e.insert(Scope::All, ModificationBehavior::Override, "ZED", "z2");
    e.insert(Scope::Build, ModificationBehavior::Default, "BAR", "b2");
    e.insert(Scope::Build, ModificationBehavior::Prepend, "BAR2", "b3");
    e.insert(Scope::Launch, ModificationBehavior::Override, "BAZ", "c2");
    e.insert(Scope::Launch, ModificationBehavior::Append, "BAZ2", "c3");
    e.insert(Scope::Process("web".into()), ModificationBehavior::Prepend, "QUX", "d2");
    e.insert(Scope::Process("web".into()), ModificationBehavior::Append, "QUX2", "d3");
    e.insert(Scope::Process("worker".into()), ModificationBehavior::Override, "W", "w2");
    e
}

fn err_kind(e: &libcnb::Error<TbError>) -> String {
    let d = format!("{e:?}");
    let k = match e {
        libcnb::Error::BuildpackError(_) => "buildpack",
        libcnb::Error::LayerError(_) => {
            if d.contains("CouldNotReadGenericLayerMetadata(") { "genericMeta" }
            else if d.contains("MissingLayer(") { "missingLayer" } else if d.contains("MissingExecDFile(") { "missingExecd" }
            else if d.contains("ParseError(") || d.contains("TomlDeserializationError(") { "parse" }
            else { "io" }
        }
        _ => "other",
    };
    format!("err:{k}")
}

fn cached(ctx: &BuildContext<TestBuildpack>, name: &LayerName, restored: &str, invalid: &str) -> R<LayerRef<TestBuildpack, u32, u32>> {
    ctx.cached_layer(name, CachedLayerDefinition {
        build: true, launch: true,
        invalid_metadata_action: &|_: &GenericMetadata| -> Result<(InvalidMetadataAction<V>, u32), TbError> {
            Ok(if invalid == "replace" { (InvalidMetadataAction::ReplaceMetadata(V { v: 5 }), 1) } else { (InvalidMetadataAction::DeleteLayer, 2) })
        },
        restored_layer_action: &|_: &V, _: &Path| -> Result<(RestoredLayerAction, u32), TbError> {
            Ok(if restored == "keep" { (RestoredLayerAction::KeepLayer, 3) } else { (RestoredLayerAction::DeleteLayer, 4) })
        },
    })
}

/// `cached-migrate`: both callbacks LOOK at what libcnb read from disk (mirrored by `migrateInv` / `restoredByMeta` in
/// Model/FsProgOps.lean). `invalid_metadata_action` is a real migration: the old format `{ w = <int> }` becomes `V { v: w + 10 }`;
/// when there is nothing to migrate from (no metadata, no integer `w`) the layer is deleted. `restored_layer_action` keeps the
/// current value (1) and migrated ones (> 10) and deletes anything else. A read whose failure is presented to a callback as
/// "no data" therefore changes the outcome of the call instead of vanishing behind a constant answer.
fn cached_migrate(ctx: &BuildContext<TestBuildpack>, name: &LayerName) -> R<LayerRef<TestBuildpack, u32, u32>> {
    ctx.cached_layer(name, CachedLayerDefinition {
        build: true, launch: true,
        invalid_metadata_action: &|old: &GenericMetadata| -> Result<(InvalidMetadataAction<V>, u32), TbError> {
            Ok(match old.as_ref().and_then(|t| t.get("w")).and_then(toml::Value::as_integer) {
                Some(w) => (InvalidMetadataAction::ReplaceMetadata(V { v: w + 10 }), 1),
                None => (InvalidMetadataAction::DeleteLayer, 2),
            })
        },
        restored_layer_action: &|m: &V, _: &Path| -> Result<(RestoredLayerAction, u32), TbError> {
            Ok(if m.v == 1 || m.v > 10 { (RestoredLayerAction::KeepLayer, 3) } else { (RestoredLayerAction::DeleteLayer, 4) })
        },
    })
}

struct TraitLayer { strategy: ExistingLayerStrategy, migration: &'static str, prog: PathBuf, multi: bool, datadep: bool }
impl TraitLayer {
    fn result(&self, v: i64) -> LayerResult<V> {
        if self.multi {
            let src = |n: &str| self.prog.parent().unwrap().join(n);
            return LayerResultBuilder::new(V { v }).env(env2())
                .exec_d_program("prog", src("prog")).exec_d_program("prog2", src("prog2")).exec_d_program("prog3", src("prog3"))
                .sbom(Sbom::from_bytes(SbomFormat::CycloneDxJson, "{\"new\":1}")).sbom(Sbom::from_bytes(SbomFormat::SpdxJson, "{\"new\":2}"))
                .sbom(Sbom::from_bytes(SbomFormat::SyftJson, "{\"new\":3}")).build_unwrapped();
        }
        LayerResultBuilder::new(V { v }).env(env1()).exec_d_program("prog", self.prog.clone())
            .sbom(Sbom::from_bytes(SbomFormat::CycloneDxJson, "{\"new\":1}")).build_unwrapped()
    }
}
impl Layer for TraitLayer {
    type Buildpack = TestBuildpack;
    type Metadata = V;
    fn types(&self) -> LayerTypes { LayerTypes { launch: true, build: true, cache: true } }
    fn create(&mut self, _: &BuildContext<TestBuildpack>, _: &Path) -> Result<LayerResult<V>, TbError> { Ok(self.result(3)) }
    /// `datadep` (`t-migrate`): the strategy depends on the `LayerData` read from disk (mirrored by `strategyByData`): a migrated
    /// layer (v > 10) is kept; a current one (v = 1) is updated when the env read back from the layer directory sets FOO and kept
    /// otherwise; any other value is recreated
    fn existing_layer_strategy(&mut self, _: &BuildContext<TestBuildpack>, ld: &LayerData<V>) -> Result<ExistingLayerStrategy, TbError> {
        if !self.datadep { return Ok(self.strategy); }
        let v = ld.content_metadata.metadata.v;
        let has_foo = ld.env.apply(Scope::Build, &libcnb::Env::new()).contains_key("FOO");
        Ok(if v > 10 { ExistingLayerStrategy::Keep } else if v == 1 { if has_foo { ExistingLayerStrategy::Update } else { ExistingLayerStrategy::Keep } } else { ExistingLayerStrategy::Recreate })
    }
    /// `datadep`: the new metadata is derived from the old one (`updatedByData`)
    fn update(&mut self, _: &BuildContext<TestBuildpack>, ld: &LayerData<V>) -> Result<LayerResult<V>, TbError> {
        Ok(self.result(if self.datadep { ld.content_metadata.metadata.v + 3 } else { 4 }))
    }
    /// `datadep`: a real migration of the generic metadata read the second time (`migrateT`): `{ w }` -> `V { v: w + 10 }`,
    /// nothing to migrate from -> RecreateLayer
    fn migrate_incompatible_metadata(&mut self, _: &BuildContext<TestBuildpack>, old: &GenericMetadata) -> Result<MetadataMigration<V>, TbError> {
        if self.datadep {
            return Ok(match old.as_ref().and_then(|t| t.get("w")).and_then(toml::Value::as_integer) {
                Some(w) => MetadataMigration::ReplaceMetadata(V { v: w + 10 }),
                None => MetadataMigration::RecreateLayer,
            });
        }
        Ok(if self.migration == "replace" { MetadataMigration::ReplaceMetadata(V { v: 6 }) } else { MetadataMigration::RecreateLayer })
    }
}

fn run(root: &Path, op: &str, state: &str) -> Result<String, String> {
    prepare(root, state)?;
    let layers = root.join("fs/layers");
    let ctx = build_context(&layers, root);
    let name: LayerName = "x".parse().unwrap();
    let prog = root.join("srcs/prog");
    let show = |r: R<()>| match r { Ok(()) => "ok".to_string(), Err(e) => err_kind(&e) };
    let showref = |r: R<LayerRef<TestBuildpack, u32, u32>>| match r { Ok(_) => "ok".to_string(), Err(e) => err_kind(&e) };
    // LayerRef writes: the reference comes from an (unlogged, unfaulted) cached_layer request that keeps a restored layer
    if let Some(w) = op.strip_prefix("w") {
        let lr = cached(&ctx, &name, "keep", "delete").map_err(|e| format!("prelude failed: {e:?}"))?;
        arm();
        let r = match w {
            "meta" => lr.write_metadata(V { v: 9 }),
            "env" => lr.write_env(env1()),
            "env-empty" => lr.write_env(LayerEnv::new()),
            "env-proc" => { let mut e = LayerEnv::new(); e.insert(Scope::Process("web".into()), ModificationBehavior::Prepend, "QUX", "d2"); lr.write_env(e) }
            "sbom" => lr.write_sboms(&[Sbom::from_bytes(SbomFormat::CycloneDxJson, "{\"new\":1}"), Sbom::from_bytes(SbomFormat::SpdxJson, "{\"new\":2}")]),
            "sbom-none" => lr.write_sboms(&[]),
            "execd" => lr.write_exec_d_programs([("prog", prog.clone())]),
            "env-multi" => lr.write_env(env2()),
            "env-emptyval" => { let mut e = LayerEnv::new(); e.insert(Scope::All, ModificationBehavior::Append, "EMPTY", ""); e.insert(Scope::Launch, ModificationBehavior::Override, "FULL", "v"); lr.write_env(e) }
            "sbom-all" => lr.write_sboms(&[Sbom::from_bytes(SbomFormat::CycloneDxJson, "{\"new\":1}"), Sbom::from_bytes(SbomFormat::SpdxJson, "{\"new\":2}"), Sbom::from_bytes(SbomFormat::SyftJson, "{\"new\":3}")]),
            "sbom-spdx" => lr.write_sboms(&[Sbom::from_bytes(SbomFormat::SpdxJson, "{\"new\":2}")]),
            "sbom-empty" => lr.write_sboms(&[Sbom::from_bytes(SbomFormat::CycloneDxJson, ""), Sbom::from_bytes(SbomFormat::SyftJson, "{\"new\":3}")]),
            "execd-multi" => lr.write_exec_d_programs([("prog", prog.clone()), ("prog2", root.join("srcs/prog2")), ("prog3", root.join("srcs/prog3"))]),
            "execd-none" => lr.write_exec_d_programs(Vec::<(String, PathBuf)>::new()),
            _ => { disarm(); return Err(format!("unknown op {op}")); }
        };
        disarm();
        return Ok(show(r));
    }
    let trait_layer = |strategy, migration| TraitLayer { strategy, migration, prog: prog.clone(), multi: op.ends_with("-multi"), datadep: op == "t-migrate" };
    arm();
    let out = match op {
        "cached-keep" => showref(cached(&ctx, &name, "keep", "delete")),
        "cached-del" => showref(cached(&ctx, &name, "delete", "delete")),
        "cached-repl" => showref(cached(&ctx, &name, "keep", "replace")),
        "cached-migrate" => showref(cached_migrate(&ctx, &name)),
        "t-migrate" => show(ctx.handle_layer(name.clone(), trait_layer(ExistingLayerStrategy::Keep, "recreate")).map(|_| ())),
        "uncached" => match ctx.uncached_layer(&name, UncachedLayerDefinition { build: true, launch: false }) { Ok(_) => "ok".into(), Err(e) => err_kind(&e) },
        "t-recreate" => show(ctx.handle_layer(name.clone(), trait_layer(ExistingLayerStrategy::Recreate, "recreate")).map(|_| ())),
        "t-recreate-multi" => show(ctx.handle_layer(name.clone(), trait_layer(ExistingLayerStrategy::Recreate, "recreate")).map(|_| ())),
        "t-update-multi" => show(ctx.handle_layer(name.clone(), trait_layer(ExistingLayerStrategy::Update, "recreate")).map(|_| ())),
        "t-update" => show(ctx.handle_layer(name.clone(), trait_layer(ExistingLayerStrategy::Update, "recreate")).map(|_| ())),
        "t-keep" => show(ctx.handle_layer(name.clone(), trait_layer(ExistingLayerStrategy::Keep, "recreate")).map(|_| ())),
        "t-mig-recreate" => show(ctx.handle_layer(name.clone(), trait_layer(ExistingLayerStrategy::Keep, "recreate")).map(|_| ())),
        "t-mig-replace" => show(ctx.handle_layer(name.clone(), trait_layer(ExistingLayerStrategy::Keep, "replace")).map(|_| ())),
        "envwrite" => match env1().write_to_layer_dir(layers.join("x")) { Ok(()) => "ok".into(), Err(_) => "err:io".into() },
        "envwrite-empty" => match LayerEnv::new().write_to_layer_dir(layers.join("x")) { Ok(()) => "ok".into(), Err(_) => "err:io".into() },
        _ => { disarm(); return Err(format!("unknown op {op}")); }
    };
    disarm();
    Ok(out)
}

fn main() {
    let a: Vec<String> = std::env::args().collect();
    let r = match a.get(1).map(String::as_str) {
        Some("prepare") if a.len() == 4 => prepare(Path::new(&a[2]), &a[3]).map(|()| "prepared".to_string()),
        Some("run") if a.len() == 5 => run(Path::new(&a[2]), &a[3], &a[4]),
        _ => Err("usage: c12op prepare <root> <state> | run <root> <op> <state>".into()),
    };
    match r { Ok(s) => println!("{s}"), Err(e) => { eprintln!("c12op: {e}"); std::process::exit(2); } }
}
