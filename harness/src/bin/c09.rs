//! C09 correspondence: the regex-validated newtypes (`LayerName`, `ProcessType`, `BuildpackId`, `ExecDProgramOutputKey`) and
//! `BuildpackVersion` / `BuildpackApi` of /repo/libcnb-data on generated strings, through six paths:
//! `str::parse` / `TryFrom<String>`, deserialisation (`toml::from_str` of a one-field struct in the toml crate's spelling and in an
//! all-escapes spelling, `serde_json::from_str` of a JSON string, a TOML table key) and — thorough tier — the
//! compile-time literal macros (a scratch crate depending on /repo/libcnb-data by path, `cargo check --message-format=json`).
//!
//! Case fields: `<kind> <string as hex code points joined by ','; '-' = empty> <extra; '-' when unused>` (see Driver/C09.lean).
use cnbv::*;
use libcnb_data::buildpack::{BuildpackApi, BuildpackId, BuildpackVersion};
use libcnb_data::exec_d::ExecDProgramOutputKey;
use libcnb_data::launch::ProcessType;
use libcnb_data::layer::LayerName;
use serde::de::DeserializeOwned;
use serde::{Deserialize, Serialize};
use std::fmt::Display;
use std::str::FromStr;

// ------------------------------------------------------------------------------------------------ encoding
fn cps(s: &str) -> String { join(",", &s.chars().map(|c| format!("{:x}", c as u32)).collect::<Vec<_>>()) }
fn cps_sep(s: &str, sep: &str) -> String { join(sep, &s.chars().map(|c| format!("{:x}", c as u32)).collect::<Vec<_>>()) }
fn uncps(s: &str, sep: &str) -> Option<String> {
    split_list(s, sep).iter().map(|t| u32::from_str_radix(t, 16).ok().and_then(char::from_u32)).collect()
}

// ------------------------------------------------------------------------------------------------ the entry paths
#[derive(Deserialize)]
struct Holder<T> { v: T }
#[derive(Serialize)]
struct HolderStr<'a> { v: &'a str }

/// TOML text `v = "<s>"` written by the toml crate; `None` if that text does not read back as the same string
/// (then the TOML path cannot be exercised for this input and the observation says so)
fn toml_doc(s: &str) -> Option<String> {
    let doc = toml::to_string(&HolderStr { v: s }).ok()?;
    match toml::from_str::<Holder<String>>(&doc) { Ok(h) if h.v == s => Some(doc), _ => None }
}
/// the same document with every character of the string written as a `\uXXXX` / `\UXXXXXXXX` escape (the parser then
/// hands an owned, unescaped string to the visitor instead of a slice of the input)
fn toml_doc_escaped(s: &str) -> Option<String> {
    let mut doc = String::from("v = \"");
    for c in s.chars() { let n = c as u32; if n <= 0xffff { doc.push_str(&format!("\\u{n:04X}")); } else { doc.push_str(&format!("\\U{n:08X}")); } }
    doc.push_str("\"\n");
    match toml::from_str::<Holder<String>>(&doc) { Ok(h) if h.v == s => Some(doc), _ => None }
}
/// keys of a table, in document order, each read through `T`'s `Deserialize` (the map-key deserialiser of the toml crate)
struct Keys<T>(Vec<T>);
impl<'de, T: Deserialize<'de>> Deserialize<'de> for Keys<T> {
    fn deserialize<D: serde::Deserializer<'de>>(d: D) -> Result<Self, D::Error> {
        struct Vis<T>(std::marker::PhantomData<T>);
        impl<'de, T: Deserialize<'de>> serde::de::Visitor<'de> for Vis<T> {
            type Value = Keys<T>;
            fn expecting(&self, f: &mut std::fmt::Formatter) -> std::fmt::Result { f.write_str("a table") }
            fn visit_map<A: serde::de::MapAccess<'de>>(self, mut m: A) -> Result<Keys<T>, A::Error> {
                let mut out = vec![];
                while let Some(k) = m.next_key::<T>()? { let _: serde::de::IgnoredAny = m.next_value()?; out.push(k); }
                Ok(Keys(out))
            }
        }
        d.deserialize_map(Vis(std::marker::PhantomData))
    }
}
/// `[v]` table with the string as its only (quoted) key
fn toml_doc_key(s: &str) -> Option<String> {
    let mut k = String::from("\"");
    for c in s.chars() {
        match c {
            '"' => k.push_str("\\\""), '\\' => k.push_str("\\\\"),
            c if (c as u32) < 0x20 || c as u32 == 0x7f => k.push_str(&format!("\\u{:04X}", c as u32)),
            c => k.push(c),
        }
    }
    k.push('"');
    let doc = format!("[v]\n{k} = 1\n");
    match toml::from_str::<Holder<Keys<String>>>(&doc) { Ok(h) if h.v.0.len() == 1 && h.v.0[0] == s => Some(doc), _ => None }
}
fn json_doc(s: &str) -> Option<String> {
    let doc = serde_json::to_string(s).ok()?;
    match serde_json::from_str::<String>(&doc) { Ok(x) if x == s => Some(doc), _ => None }
}

/// the deserialisation paths: `t` TOML value as the toml crate spells it, `u` TOML value spelled with escapes only,
/// `j` JSON string, `k` TOML table key. `Err(())`: the carrier text could not be produced for this string.
fn de_paths<T: DeserializeOwned>(s: &str) -> Vec<Result<Option<T>, ()>> {
    vec![
        toml_doc(s).ok_or(()).map(|doc| toml::from_str::<Holder<T>>(&doc).ok().map(|h| h.v)),
        toml_doc_escaped(s).ok_or(()).map(|doc| toml::from_str::<Holder<T>>(&doc).ok().map(|h| h.v)),
        json_doc(s).ok_or(()).map(|doc| serde_json::from_str::<T>(&doc).ok()),
        toml_doc_key(s).ok_or(()).map(|doc| toml::from_str::<Holder<Keys<T>>>(&doc).ok().and_then(|h| { let mut v = h.v.0; if v.len() == 1 { v.pop() } else { None } })),
    ]
}
/// names of the paths in the observation: `p` = run-time parsing (`str::parse` / `TryFrom<String>`), then `de_paths`
const PATHS: &[&str] = &["p", "t", "u", "j", "k"];
fn all_paths<T: DeserializeOwned>(s: &str, direct: Option<T>, show: &dyn Fn(Option<T>) -> String) -> Vec<String> {
    let mut out = vec![show(direct)];
    for r in de_paths::<T>(s) { out.push(match r { Ok(v) => show(v), Err(()) => "carrier-text".into() }); }
    out
}

fn ident_result<T: Display + Serialize>(v: Option<T>) -> String {
    match v {
        None => "err".into(),
        Some(v) => {
            let ser = match toml::Value::try_from(&v) { Ok(toml::Value::String(x)) => cps(&x), _ => "not-a-string".into() };
            format!("ok:{}:{}", cps(&v.to_string()), ser)
        }
    }
}
fn ident_paths<T: FromStr + Display + Serialize + DeserializeOwned>(s: &str) -> Vec<String> { all_paths::<T>(s, s.parse::<T>().ok(), &ident_result::<T>) }

fn version_result(v: Option<BuildpackVersion>) -> String {
    match v {
        None => "err".into(),
        Some(v) => {
            let d = v.to_string();
            let back = match BuildpackVersion::try_from(d.clone()) { Ok(w) => format!("{}.{}.{}", w.major, w.minor, w.patch), Err(_) => "err".into() };
            format!("ok:{}.{}.{}:{}:{}", v.major, v.minor, v.patch, cps(&d), back)
        }
    }
}
fn version_paths(s: &str) -> Vec<String> { all_paths::<BuildpackVersion>(s, BuildpackVersion::try_from(s.to_string()).ok(), &version_result) }
fn api_result(v: Option<BuildpackApi>) -> String {
    match v {
        None => "err".into(),
        Some(v) => {
            let d = v.to_string();
            let back = match BuildpackApi::try_from(d.clone()) { Ok(w) => format!("{}.{}", w.major, w.minor), Err(_) => "err".into() };
            format!("ok:{}.{}:{}:{}", v.major, v.minor, cps(&d), back)
        }
    }
}
fn api_paths(s: &str) -> Vec<String> { all_paths::<BuildpackApi>(s, BuildpackApi::try_from(s.to_string()).ok(), &api_result) }

fn paths(kind: &str, s: &str) -> Option<Vec<String>> {
    Some(match kind {
        "layer" => ident_paths::<LayerName>(s),
        "process" => ident_paths::<ProcessType>(s),
        "bpid" => ident_paths::<BuildpackId>(s),
        "execd" => ident_paths::<ExecDProgramOutputKey>(s),
        "version" => version_paths(s),
        "api" => api_paths(s),
        _ => return None,
    })
}

/// class of one string in a bulk case: `0` rejected by every path, `1` accepted by every path and displayed (serialised, re-parsed)
/// as the input, `2` accepted by every path and displayed differently but re-parsed as the same value, `x` anything else
fn class_of(kind: &str, s: &str) -> char {
    let Some(all) = paths(kind, s) else { return '?' };
    if all.iter().any(|x| *x != all[0]) { return 'x'; }
    let p = all[0].clone();
    if p == "err" { return '0'; }
    let parts: Vec<&str> = p.split(':').collect();
    let me = cps(s);
    match kind {
        "layer" | "process" | "bpid" | "execd" => if parts.len() == 3 && parts[1] == me && parts[2] == me { '1' } else { 'x' },
        _ => if parts.len() == 4 && parts[1] == parts[3] { if parts[2] == me { '1' } else { '2' } } else { 'x' },
    }
}

fn enum_suffixes(alphabet: &[char], depth: usize) -> Vec<String> {
    let mut all = vec![String::new()];
    let mut cur = vec![String::new()];
    for _ in 0..depth {
        let mut next = Vec::with_capacity(cur.len() * alphabet.len());
        for w in &cur { for a in alphabet { let mut x = w.clone(); x.push(*a); next.push(x); } }
        all.extend(next.iter().cloned());
        cur = next;
    }
    all
}

// ------------------------------------------------------------------------------------------------ literal macros
const MACROS: &[(&str, &str)] = &[("mlayer", "layer_name"), ("mprocess", "process_type"), ("mbpid", "buildpack_id"), ("mexecd", "exec_d_program_output_key")];

fn collect_lines(span: &serde_json::Value, out: &mut Vec<u64>) {
    if span.get("file_name").and_then(|f| f.as_str()).map(|f| f.ends_with("src/main.rs") && !f.starts_with("/repo")).unwrap_or(false) {
        if let Some(l) = span.get("line_start").and_then(|l| l.as_u64()) { out.push(l); }
    }
    if let Some(e) = span.get("expansion") { if let Some(s) = e.get("span") { collect_lines(s, out); } }
}

/// one `cargo check` of a scratch crate with one literal-macro invocation per line; `1` = compiled, `0` = rejected by
/// the macro's `compile_error!`
fn macro_batch(mac: &str, lits: &[String]) -> String {
    // a failing *tool invocation* (cargo killed, lock time-out under load, scratch dir trouble) says nothing about the macros:
    // such a result is retried twice before it is reported
    let mut r = macro_batch_once(mac, lits);
    for _ in 0..2 { if !r.starts_with("err:") { break; } std::thread::sleep(std::time::Duration::from_millis(500)); r = macro_batch_once(mac, lits); }
    r
}

unsafe extern "C" { #[link_name = "flock"] fn libc_flock(fd: i32, op: i32) -> i32; }

fn macro_batch_once(mac: &str, lits: &[String]) -> String {
    let dir = match tempfile::Builder::new().prefix("c09-lit-").tempdir() { Ok(d) => d, Err(_) => return "err:tempdir".into() };
    let root = dir.path();
    let lock = std::env::var("CARGO_MANIFEST_DIR").map(|d| format!("{d}/Cargo.lock")).unwrap_or_else(|_| "/verif/harness/Cargo.lock".into());
    let lock = if std::path::Path::new(&lock).exists() { lock } else { "/verif/harness/Cargo.lock".into() };
    let mut src = String::from("#![allow(unused)]\nfn main() {\n");
    const FIRST: u64 = 3; // line number of the first literal
    for l in lits { src.push_str(&format!("let _ = libcnb_data::{mac}!({l:?});\n")); }
    src.push_str("}\n");
    let ok = std::fs::create_dir_all(root.join("src")).is_ok()
        && std::fs::write(root.join("Cargo.toml"), "[package]\nname = \"c09lit\"\nversion = \"0.0.0\"\nedition = \"2021\"\npublish = false\n[workspace]\n[dependencies]\nlibcnb-data = { path = \"/repo/libcnb-data\" }\n").is_ok()
        && std::fs::copy(&lock, root.join("Cargo.lock")).is_ok()
        && std::fs::write(root.join("src/main.rs"), &src).is_ok();
    let src2 = src;
    if !ok { return "err:scratch".into(); }
    let target = std::env::var("VERIF_C09_TARGET").unwrap_or_else(|_| "/verif/harness/target/c09-lit".into());
    // All scratch crates share one cargo unit (cargo hashes a workspace root's path as ""), and cargo decides freshness by
    // comparing src/main.rs's mtime with the previous batch's dep-info: a batch whose source was written *before* an
    // earlier batch finished would be taken as fresh and inherit that batch's (possibly all-valid) result. So writing the
    // source and checking it is one critical section (across threads and processes), and the source is written inside it.
    static BATCH: std::sync::Mutex<()> = std::sync::Mutex::new(());
    let _guard = BATCH.lock().unwrap_or_else(|e| e.into_inner());
    let _ = std::fs::create_dir_all(&target);
    let lockfile = std::fs::OpenOptions::new().create(true).write(true).open(format!("{target}/.batch.lock")).ok();
    if let Some(f) = &lockfile { use std::os::fd::AsRawFd; unsafe { libc_flock(f.as_raw_fd(), 2); } }
    std::thread::sleep(std::time::Duration::from_millis(5));
    if std::fs::write(root.join("src/main.rs"), &src2).is_err() { return "err:scratch".into(); }
    let out = std::process::Command::new("cargo").args(["check", "--offline", "--quiet", "--message-format=json"]).current_dir(root)
        .env("CARGO_TARGET_DIR", &target).env("CARGO_NET_OFFLINE", "true").env_remove("RUSTFLAGS").output();
    let Ok(out) = out else { return "err:cargo-spawn".into() };
    let mut rejected = vec![false; lits.len()];
    let mut stray = false;
    for line in String::from_utf8_lossy(&out.stdout).lines() {
        let Ok(v) = serde_json::from_str::<serde_json::Value>(line) else { continue };
        if v.get("reason").and_then(|r| r.as_str()) != Some("compiler-message") { continue; }
        let m = &v["message"];
        if m.get("level").and_then(|l| l.as_str()) != Some("error") { continue; }
        let text = m.get("message").and_then(|t| t.as_str()).unwrap_or("");
        if text.starts_with("aborting due to") || text.starts_with("could not compile") { continue; }
        let mut lines = vec![];
        if let Some(spans) = m.get("spans").and_then(|s| s.as_array()) { for s in spans { collect_lines(s, &mut lines); } }
        let mut hit = false;
        for l in lines { if l >= FIRST && ((l - FIRST) as usize) < lits.len() && text.contains("is not a valid") { rejected[(l - FIRST) as usize] = true; hit = true; } }
        if !hit { stray = true; }
    }
    if stray { return "err:diagnostic".into(); }
    if out.status.success() != rejected.iter().all(|r| !r) { return "err:cargo".into(); }
    rejected.iter().map(|r| if *r { '0' } else { '1' }).collect()
}

// ------------------------------------------------------------------------------------------------ run
fn run_case(f: &[String]) -> String {
    if f.len() != 3 { return "bad-input".into(); }
    let (kind, s, extra) = (f[0].as_str(), f[1].as_str(), f[2].as_str());
    match kind {
        "layer" | "process" | "bpid" | "execd" | "version" | "api" => {
            let (Some(s), "-") = (uncps(s, ","), extra) else { return "bad-input".into() };
            let all = paths(kind, &s).unwrap();
            PATHS.iter().zip(all.iter()).map(|(n, r)| format!("{n}={r}")).collect::<Vec<_>>().join(";")
        }
        "mlayer" | "mprocess" | "mbpid" | "mexecd" => {
            if s != "-" { return "bad-input".into(); }
            let Some(lits) = split_list(extra, "/").iter().map(|l| uncps(l, ".")).collect::<Option<Vec<String>>>() else { return "bad-input".into() };
            let mac = MACROS.iter().find(|(k, _)| *k == kind).unwrap().1;
            if lits.is_empty() { String::new() } else { macro_batch(mac, &lits) }
        }
        "xlayer" | "xprocess" | "xbpid" | "xexecd" | "xversion" | "xapi" => {
            let Some(pre) = uncps(s, ",") else { return "bad-input".into() };
            let Some((alpha, depth)) = extra.split_once('|') else { return "bad-input".into() };
            let (Some(alpha), Ok(depth)) = (uncps(alpha, "."), depth.parse::<usize>()) else { return "bad-input".into() };
            if depth > 3 { return "bad-input".into(); }
            let alphabet: Vec<char> = alpha.chars().collect();
            enum_suffixes(&alphabet, depth).iter().map(|suf| class_of(&kind[1..], &format!("{pre}{suf}"))).collect()
        }
        "vtriple" => {
            let n: Vec<u64> = extra.split('.').filter_map(|x| x.parse().ok()).collect();
            if s != "-" || n.len() != 3 || extra.split('.').count() != 3 { return "bad-input".into(); }
            let d = BuildpackVersion::new(n[0], n[1], n[2]).to_string();
            let r = match BuildpackVersion::try_from(d.clone()) { Ok(w) => format!("{}.{}.{}", w.major, w.minor, w.patch), Err(_) => "err".into() };
            format!("d={};r={}", cps(&d), r)
        }
        "apair" => {
            let n: Vec<u64> = extra.split('.').filter_map(|x| x.parse().ok()).collect();
            if s != "-" || n.len() != 2 || extra.split('.').count() != 2 { return "bad-input".into(); }
            let d = BuildpackApi { major: n[0], minor: n[1] }.to_string();
            let r = match BuildpackApi::try_from(d.clone()) { Ok(w) => format!("{}.{}", w.major, w.minor), Err(_) => "err".into() };
            format!("d={};r={}", cps(&d), r)
        }
        _ => "bad-input".into(),
    }
}

// ------------------------------------------------------------------------------------------------ generation
/// one representative per character class relevant to any of the six grammars
const ALPHABET: &[char] = &['a', 'Z', '0', '1', '.', '_', '-', '/', '+', ' ', '\n', 'é', '\0', '9'];
const KINDS: &[&str] = &["layer", "process", "bpid", "execd", "version", "api"];
const RESERVED: &[&str] = &["build", "launch", "store", "app", "config", "sbom"];

/// the harness's own reading of the grammars, used only for tags and the non-triviality rule (never for a verdict)
fn expected_valid(kind: &str, s: &str) -> bool {
    let alnum = |c: char| c.is_ascii_alphanumeric();
    let canon = |p: &str| !p.is_empty() && p.bytes().all(|b| b.is_ascii_digit()) && (p == "0" || !p.starts_with('0')) && p.parse::<u64>().is_ok();
    let plain = |p: &str| !p.is_empty() && p.bytes().all(|b| b.is_ascii_digit()) && p.parse::<u64>().is_ok();
    match kind {
        "layer" => !s.is_empty() && !s.contains('\n') && !["build", "launch", "store"].contains(&s),
        "process" => !s.is_empty() && s.chars().all(|c| alnum(c) || "._-".contains(c)),
        "bpid" => !s.is_empty() && s.chars().all(|c| alnum(c) || "./-".contains(c)) && !["app", "config", "sbom"].contains(&s),
        "execd" => !s.is_empty() && s.chars().all(|c| alnum(c) || "_-".contains(c)),
        "version" => { let p: Vec<&str> = s.split('.').collect(); p.len() == 3 && p.iter().all(|x| canon(x)) }
        "api" => { let p: Vec<&str> = s.split('.').collect(); (p.len() == 1 || p.len() == 2) && p.iter().all(|x| plain(x)) }
        _ => false,
    }
}
fn near_miss(kind: &str, s: &str) -> bool {
    let cs: Vec<char> = s.chars().collect();
    (0..cs.len()).any(|i| { let t: String = cs.iter().enumerate().filter(|(j, _)| *j != i).map(|(_, c)| *c).collect(); expected_valid(kind, &t) })
}

fn single(kind: &str, s: &str, gen_tag: &str) -> Case {
    let valid = expected_valid(kind, s);
    let near = !valid && near_miss(kind, s);
    let n = s.chars().count();
    let len = if n <= 5 { n.to_string() } else if n <= 12 { "6-12".into() } else { "13+".into() };
    Case {
        fields: vec![kind.to_string(), cps(s), "-".into()],
        tags: vec![("kind".into(), kind.into()), ("gen".into(), gen_tag.into()), ("len".into(), len), ("class".into(), if valid { "valid" } else if near { "near-miss" } else { "invalid" }.into())],
        nontrivial: valid || near,
    }
}

/// regex literals of the four `libcnb_newtype!` invocations, read from /repo with syn: their alphanumeric words seed
/// candidate strings (so that an added or dropped reserved word is exercised whatever it is)
fn source_words() -> Vec<String> {
    let mut words = vec![];
    for f in ["layer.rs", "launch.rs", "buildpack/id.rs", "exec_d.rs"] {
        let Ok(src) = std::fs::read_to_string(format!("/repo/libcnb-data/src/{f}")) else { continue };
        let Ok(file) = syn::parse_file(&src) else { continue };
        for it in &file.items {
            if let syn::Item::Macro(m) = it {
                if m.mac.path.segments.last().map(|s| s.ident == "libcnb_newtype").unwrap_or(false) {
                    let last = m.mac.tokens.clone().into_iter().filter_map(|t| if let proc_macro2::TokenTree::Literal(l) = t { Some(l) } else { None }).last();
                    if let Some(l) = last { if let Ok(ls) = syn::parse_str::<syn::LitStr>(&l.to_string()) {
                        let mut w = String::new();
                        for c in ls.value().chars().chain(std::iter::once('|')) { if c.is_alphanumeric() { w.push(c); } else { if w.chars().count() >= 2 { words.push(w.clone()); } w.clear(); } }
                    } }
                }
            }
        }
    }
    words.sort();
    words.dedup();
    words
}

fn edits(word: &str) -> Vec<String> {
    let cs: Vec<char> = word.chars().collect();
    let mut out = vec![word.to_string(), word.to_uppercase()];
    for a in ALPHABET {
        out.push(format!("{a}{word}"));
        out.push(format!("{word}{a}"));
        for i in 0..cs.len() { let mut t = cs.clone(); t[i] = *a; out.push(t.iter().collect()); }
        for i in 1..cs.len() { let mut t = cs.clone(); t.insert(i, *a); out.push(t.iter().collect()); }
    }
    for i in 0..cs.len() { let mut t = cs.clone(); t.remove(i); out.push(t.iter().collect()); }
    out.sort();
    out.dedup();
    out
}

/// every ASCII-case variant of a word (2^n for n letters; words with more than 10 letters: lower, upper, title, every
/// single letter flipped, and 64 seeded random variants)
fn case_variants(word: &str, seed: u64) -> Vec<String> {
    let cs: Vec<char> = word.chars().collect();
    let letters: Vec<usize> = (0..cs.len()).filter(|i| cs[*i].is_ascii_alphabetic()).collect();
    let flip = |mask: u64| -> String {
        let mut t = cs.clone();
        for (b, i) in letters.iter().enumerate() { if mask >> b & 1 == 1 { t[*i] = if t[*i].is_ascii_lowercase() { t[*i].to_ascii_uppercase() } else { t[*i].to_ascii_lowercase() }; } }
        t.into_iter().collect()
    };
    let n = letters.len();
    let mut out: Vec<String> = vec![];
    if n <= 10 { for m in 0..(1u64 << n) { out.push(flip(m)); } }
    else {
        out.push(flip(0)); out.push(flip((1u64 << n.min(63)) - 1)); out.push(flip(1));
        for b in 0..n.min(63) { out.push(flip(1 << b)); }
        let mut r = Rng::for_case(seed ^ 0xCA5E, word.len() as u64);
        for _ in 0..64 { out.push(flip(r.next() & ((1u64 << n.min(63)) - 1))); }
    }
    out.sort();
    out.dedup();
    out
}

/// characters that look like, fold to, or normalise to an ASCII letter / digit / permitted punctuation mark
const LOOKALIKE: &[(char, &[char])] = &[
    ('a', &['\u{430}', '\u{ff41}', '\u{aa}']), ('b', &['\u{ff42}', '\u{184}']), ('c', &['\u{441}', '\u{ff43}']), ('d', &['\u{ff44}', '\u{501}']),
    ('f', &['\u{ff46}']), ('g', &['\u{ff47}', '\u{261}']), ('h', &['\u{ff48}', '\u{4bb}']), ('i', &['\u{131}', '\u{130}', '\u{456}', '\u{ff49}', '\u{2170}']),
    ('l', &['\u{ff4c}', '\u{217c}', '\u{4cf}']), ('m', &['\u{ff4d}', '\u{217f}']), ('n', &['\u{ff4e}', '\u{578}']), ('o', &['\u{43e}', '\u{ff4f}', '\u{3bf}', '\u{ba}']),
    ('p', &['\u{440}', '\u{ff50}']), ('r', &['\u{ff52}']), ('s', &['\u{17f}', '\u{455}', '\u{ff53}']), ('t', &['\u{ff54}']), ('u', &['\u{ff55}', '\u{57d}']),
    ('k', &['\u{212a}', '\u{ff4b}']), ('e', &['\u{435}', '\u{ff45}']),
];
/// invisible / decorating / line-ending characters put before, after and inside otherwise valid values
const DECOR: &[&str] = &["\u{feff}", "\u{200b}", "\u{200d}", "\u{a0}", "\u{85}", "\u{2028}", "\u{2029}", "\u{202e}", "\u{301}", "\u{338}", "\u{fe0f}", "\r", "\r\n", "\n", "\t", " ", "\u{0}",
    "\u{7f}", "\u{1b}", ".", "..", "%", "%20", "+", "\u{ff0e}", "\u{ff0d}", "\u{2010}", "\u{2212}", "\u{ff3f}", "\u{2044}", "\u{ff0f}", "\u{ff11}", "\u{661}", "\u{1d7cf}", "\u{b2}", "\u{2460}"];

fn lookalikes(word: &str) -> Vec<String> {
    let cs: Vec<char> = word.chars().collect();
    let mut out = vec![];
    for i in 0..cs.len() {
        if let Some((_, subs)) = LOOKALIKE.iter().find(|(a, _)| *a == cs[i].to_ascii_lowercase()) {
            for sub in subs.iter() { let mut t = cs.clone(); t[i] = *sub; out.push(t.iter().collect()); }
        }
    }
    // the whole word in fullwidth letters, and with a combining mark after each position
    out.push(cs.iter().map(|c| if c.is_ascii_lowercase() { char::from_u32(0xff41 + (*c as u32 - 'a' as u32)).unwrap() } else { *c }).collect());
    for i in 1..=cs.len() { let mut t = cs.clone(); t.insert(i, '\u{301}'); out.push(t.iter().collect()); }
    out
}
fn decorated(body: &str) -> Vec<String> {
    let cs: Vec<char> = body.chars().collect();
    let mut out = vec![];
    for d in DECOR {
        out.push(format!("{d}{body}"));
        out.push(format!("{body}{d}"));
        out.push(format!("{d}{body}{d}"));
        if cs.len() >= 2 { let mid = cs.len() / 2; out.push(format!("{}{d}{}", cs[..mid].iter().collect::<String>(), cs[mid..].iter().collect::<String>())); }
    }
    out
}

/// words that mean something to the layout of the layers / platform / buildpack directories: file suffixes, file and directory names
const LAYOUT_WORDS: &[&str] = &[".toml", ".json", ".sbom", ".sbom.cdx.json", ".sbom.spdx.json", ".sbom.syft.json", ".cdx", ".tar", ".tgz", ".lock", ".d", "env", "env.build", "env.launch",
    "exec.d", "bin", "lib", "store.toml", "launch.toml", "build.toml", "plan.toml", "group.toml", "metadata", "layers", "cache", "config", "app", "sbom"];
const LAYOUT_STEMS: &[&str] = &["a", "web", "my-layer_1"];
const LAYOUT_JOINERS: &[&str] = &["", ".", "-", "_", "/"];
/// lower / upper / capitalised (first letter) spelling of a word
fn three_cases(w: &str) -> Vec<String> {
    let mut cap = String::new();
    let mut done = false;
    for c in w.chars() { if !done && c.is_ascii_alphabetic() { cap.push(c.to_ascii_uppercase()); done = true; } else { cap.push(c); } }
    let mut v = vec![w.to_string(), w.to_uppercase(), cap];
    v.dedup();
    v
}
/// identifier candidates built from the layout words: each word (lower / upper / capitalised) alone, as suffix and as prefix of each stem
/// (glued directly and by `.` `-` `_` `/`; a word that starts with a dot is also glued directly only once), between two stems, around a
/// stem (word + stem + word), and every ordered pair of words glued directly and by `.` and `/`
fn layout_candidates() -> Vec<String> {
    let mut out: Vec<String> = vec![];
    for w in LAYOUT_WORDS {
        for v in three_cases(w) {
            out.push(v.clone());
            for st in LAYOUT_STEMS {
                for j in LAYOUT_JOINERS { out.push(format!("{st}{j}{v}")); out.push(format!("{v}{j}{st}")); }
                out.push(format!("{v}{st}{v}"));
                out.push(format!("{st}{v}{}", LAYOUT_STEMS[0]));
                out.push(format!("{st}.{v}.{}", LAYOUT_STEMS[1]));
            }
        }
        for w2 in LAYOUT_WORDS { for j in ["", ".", "/"] { out.push(format!("{w}{j}{w2}")); } }
    }
    out.sort();
    out.dedup();
    out
}

const BOUNDARY: &[u64] = &[0, 1, 9, 10, 99, 4294967295, 4294967296, 9223372036854775807, 9223372036854775808, 18446744073709551614, 18446744073709551615];
/// number-like components for version / API strings: canonical, leading zeros, signs, whitespace, overflow, empty
const COMPONENTS: &[&str] = &["0", "1", "10", "007", "00", "01", "+1", "-1", "+0", " 1", "1 ", "", "1_0", "١", "1e3", "0x1",
    "18446744073709551615", "18446744073709551616", "18446744073709551617", "99999999999999999999", "018446744073709551615", "000000000000000000000000000001", "+18446744073709551615"];

fn random_string(kind: &str, rng: &mut Rng) -> String {
    let good: Vec<char> = match kind {
        "layer" => "abcXYZ019 ._-/+é~\u{0}\u{7f}\u{10ffff}".chars().collect(),
        "process" => "abcXYZ019._-".chars().collect(),
        "bpid" => "abcXYZ019./-".chars().collect(),
        "execd" => "abcXYZ019_-".chars().collect(),
        _ => "0123456789".chars().collect(),
    };
    let bad: Vec<char> = "+ \n\té\u{0}~,:*\\\"'/_.-١Ａ\u{2028}".chars().collect();
    if kind == "version" || kind == "api" {
        let parts = if kind == "version" { *rng.pick(&[3usize, 3, 3, 3, 2, 4]) } else { *rng.pick(&[1usize, 2, 2, 2, 3]) };
        let mut v: Vec<String> = (0..parts).map(|_| match rng.below(6) {
            0 => rng.pick(COMPONENTS).to_string(),
            1 => rng.pick(BOUNDARY).to_string(),
            2 => format!("{}", rng.next()),
            3 => format!("{}{}", rng.next(), rng.below(1000)),
            _ => rng.below(3000).to_string(),
        }).collect();
        if rng.chance(1, 4) { let i = rng.below(v.len() as u64) as usize; let mut cs: Vec<char> = v[i].chars().collect(); let at = rng.below(cs.len() as u64 + 1) as usize; cs.insert(at, *rng.pick(&bad)); v[i] = cs.into_iter().collect(); }
        return v.join(".");
    }
    let n = rng.range(4, 40) as usize;
    let mut cs: Vec<char> = (0..n).map(|_| *rng.pick(&good)).collect();
    match rng.below(4) {
        0 => { let at = rng.below(n as u64) as usize; cs[at] = *rng.pick(&bad); }
        1 => { let at = rng.below(n as u64 + 1) as usize; cs.insert(at, *rng.pick(&bad)); }
        _ => {}
    }
    cs.into_iter().collect()
}

fn generate(tier: &str, seed: u64, emit: &mut dyn FnMut(Case)) {
    let thorough = tier == "thorough";
    let search = std::env::var("VERIF_SEARCH").is_ok();
    // 1. bounded exhaustive: every string of length <= 3 over the 14-symbol alphabet, for every kind
    let short = enum_suffixes(ALPHABET, 3);
    for k in KINDS { for s in &short { emit(single(k, s, "exhaustive")); } }
    // 2. reserved words (of every type, on every kind) and the words found in the regex sources, with every one-character
    //    prefix / suffix / substitution / insertion / deletion over the alphabet
    let mut words: Vec<String> = RESERVED.iter().map(|s| s.to_string()).collect();
    for w in source_words() { if !words.contains(&w) && w != "alnum" { words.push(w); } }
    let mut edit_set: Vec<String> = vec![];
    for w in &words { edit_set.extend(edits(w)); }
    edit_set.sort();
    edit_set.dedup();
    for k in &["layer", "process", "bpid", "execd"] { for s in &edit_set { emit(single(k, s, "reserved-edit")); } }
    // 2b. every ASCII-case variant of every reserved word / regex-source word, alone and with every one-character prefix and
    //     suffix over the alphabet, on all four identifier kinds (every entry path of `run_case`)
    let mut case_set: Vec<String> = vec![];
    let mut case_alone: Vec<String> = vec![];
    for w in &words { for v in case_variants(w, seed) {
        case_alone.push(v.clone());
        case_set.push(v.clone());
        for a in ALPHABET { case_set.push(format!("{a}{v}")); case_set.push(format!("{v}{a}")); }
    } }
    case_set.sort(); case_set.dedup();
    case_alone.sort(); case_alone.dedup();
    for k in &["layer", "process", "bpid", "execd"] { for s in &case_set { emit(single(k, s, "case-variant")); } }
    // 2c. reserved words with one letter replaced by a look-alike / case-folding / compatibility character (long s, dotless i,
    //     Kelvin sign, Cyrillic and fullwidth letters), with a combining mark, and reserved words and ordinary valid values
    //     decorated (before / after / both / inside) with BOM, zero-width and bidi characters, NBSP, NEL, LS/PS, CR, CRLF, LF, TAB,
    //     NUL, DEL, ESC, dots, percent-escapes, look-alike punctuation and non-ASCII digits
    let mut special: Vec<String> = vec![];
    for w in &words { special.extend(lookalikes(w)); special.extend(lookalikes(&w.to_uppercase())); special.extend(decorated(w)); }
    for b in ["web", "PATH", "my-layer_1.x", "heroku/ruby", "a", "0", "Build", "io.buildpacks.stacks.jammy"] { special.extend(decorated(b)); }
    special.sort(); special.dedup();
    for k in &["layer", "process", "bpid", "execd"] { for s in &special { emit(single(k, s, "look-alike")); } }
    // 2e. words of the directory layout (file suffixes, file and directory names of the layers / platform / buildpack directories) alone, as
    //     suffix and prefix of stems, in three case spellings, and in pairs, on all four identifier kinds (every entry path of `run_case`)
    let layout = layout_candidates();
    for k in &["layer", "process", "bpid", "execd"] { for s in &layout { emit(single(k, s, "layout-word")); } }
    // 2d. version / API strings decorated the same way (start, end, both, middle) and after / before each dot
    let mut vdecor: Vec<(&str, String)> = vec![];
    for b in ["1.2.3", "0.0.0", "10.20.30", "18446744073709551615.0.1"] {
        for s in decorated(b) { vdecor.push(("version", s)); }
        for d in DECOR.iter().chain(["v", "V", "=", "-", "_", "0", "00", "e", "E1", "x", "0x", "-rc1", "+build", "١"].iter()) {
            let parts: Vec<&str> = b.split('.').collect();
            for i in 0..3 { for front in [true, false] {
                let mut p: Vec<String> = parts.iter().map(|x| x.to_string()).collect();
                p[i] = if front { format!("{d}{}", p[i]) } else { format!("{}{d}", p[i]) };
                vdecor.push(("version", p.join(".")));
            } }
        }
    }
    for b in ["0.10", "1", "0", "10.0", "0.18446744073709551615"] {
        for s in decorated(b) { vdecor.push(("api", s)); }
        for d in DECOR.iter().chain(["v", "V", "=", "-", "_", "0", "00", "e", "E1", "x", "0x", "-rc1", "+build", "١"].iter()) {
            let parts: Vec<&str> = b.split('.').collect();
            for i in 0..parts.len() { for front in [true, false] {
                let mut p: Vec<String> = parts.iter().map(|x| x.to_string()).collect();
                p[i] = if front { format!("{d}{}", p[i]) } else { format!("{}{d}", p[i]) };
                vdecor.push(("api", p.join(".")));
            } }
        }
    }
    vdecor.sort(); vdecor.dedup();
    for (k, s) in &vdecor { emit(single(k, s, "decorated")); }
    // 3. every code point 0..=0x17f (and some beyond) alone and inside `a?a`: finds any widened or narrowed class
    let mut points: Vec<char> = (0u32..=0x17f).filter_map(char::from_u32).collect();
    points.extend(['\u{7ff}', '\u{800}', '\u{d7ff}', '\u{e000}', '\u{ffff}', '\u{10000}', '\u{10ffff}', '\u{2028}', '\u{660}', '\u{ff11}']);
    for k in KINDS { for c in &points { emit(single(k, &c.to_string(), "code-point")); emit(single(k, &format!("a{c}a"), "code-point")); emit(single(k, &format!("1.{c}.1"), "code-point")); } }
    // 4. version / API strings from number-like components (signs, zeros, whitespace, overflow) and u64 boundary values
    for a in COMPONENTS { for b in COMPONENTS {
        emit(single("api", &format!("{a}.{b}"), "components"));
        for c in &["0", "1", "+1", "01", "18446744073709551615", "18446744073709551616", " 1", ""] { emit(single("version", &format!("{a}.{b}.{c}"), "components")); emit(single("version", &format!("{c}.{a}.{b}"), "components")); }
    } emit(single("api", a, "components")); emit(single("version", a, "components")); }
    for a in BOUNDARY { for b in BOUNDARY {
        emit(Case { fields: vec!["apair".into(), "-".into(), format!("{a}.{b}")], tags: vec![("kind".into(), "apair".into()), ("gen".into(), "boundary".into())], nontrivial: true });
        emit(single("api", &format!("{a}.{b}"), "boundary"));
        for c in BOUNDARY {
            emit(Case { fields: vec!["vtriple".into(), "-".into(), format!("{a}.{b}.{c}")], tags: vec![("kind".into(), "vtriple".into()), ("gen".into(), "boundary".into())], nontrivial: true });
            if thorough { emit(single("version", &format!("{a}.{b}.{c}"), "boundary")); }
        }
    } }
    // 5. seeded random longer strings (mostly valid, one injected fault in about half of them) and random u64 triples
    let n_rand = if thorough { 200_000 } else { 20_000 };
    for i in 0..n_rand {
        let mut rng = Rng::for_case(seed, i);
        let k = KINDS[(i % 6) as usize];
        emit(single(k, &random_string(k, &mut rng), "random"));
    }
    // 5b. long strings around typical size limits (the grammars have no length bound): valid identifiers and digit strings of
    //     length 63..66, 127..130, 255..258, 511..514, 1023..1026, 2047..2050 (UTF-8 bytes and, for layer names,
    //     the same number of multi-byte characters), plus the same with one invalid character at the start / middle / end
    for k in ["layer", "process", "bpid", "execd"] {
        for base in [64usize, 128, 256, 512, 1024, 2048] { for d in [-1i64, 0, 1, 2] {
            let n = (base as i64 + d) as usize;
            let body: String = (0..n).map(|j| ['a', 'Z', '7', '-'][j % 4]).collect();
            emit(single(k, &body, "long"));
            if n <= 4097 {
                for pos in [0usize, n / 2, n - 1] { let mut cs: Vec<char> = body.chars().collect(); cs[pos] = ' '; emit(single(k, &cs.iter().collect::<String>(), "long")); }
                if k == "layer" { let mb: String = (0..n).map(|j| ['é', '🦀', 'a'][j % 3]).collect(); emit(single(k, &mb, "long")); }
            }
        } }
    }
    for n in [19usize, 20, 21, 39, 40, 255, 256, 257] {
        let digits: String = (0..n).map(|j| char::from(b'1' + (j % 9) as u8)).collect();
        emit(single("version", &format!("1.{digits}.3"), "long"));
        emit(single("api", &format!("0.{digits}"), "long"));
        let zeros = "0".repeat(n);
        emit(single("api", &format!("{zeros}.{zeros}"), "long"));
        emit(single("version", &format!("{zeros}.1.1"), "long"));
    }
    for i in 0..(if thorough { 20_000 } else { 2_000 }) {
        let mut rng = Rng::for_case(seed ^ 0x5eed, i);
        let mut n = || { let x = rng.next(); match rng.below(4) { 0 => x, 1 => x >> 32, 2 => x >> 54, _ => *rng.pick(BOUNDARY) } };
        let (a, b, c) = (n(), n(), n());
        emit(Case { fields: vec!["vtriple".into(), "-".into(), format!("{a}.{b}.{c}")], tags: vec![("kind".into(), "vtriple".into()), ("gen".into(), "random".into())], nontrivial: true });
        emit(Case { fields: vec!["apair".into(), "-".into(), format!("{a}.{b}")], tags: vec![("kind".into(), "apair".into()), ("gen".into(), "random".into())], nontrivial: true });
    }
    if thorough || search {
        // 6. every string of length 3..=5 over the alphabet, for every kind: one bulk case per 3-character prefix
        //    (also in the search rounds that follow a broken tie, whatever the tier)
        let alpha = cps_sep(&ALPHABET.iter().collect::<String>(), ".");
        for k in KINDS { for p in short.iter().filter(|s| s.chars().count() == 3) {
            emit(Case { fields: vec![format!("x{k}"), cps(p), format!("{alpha}|2")], tags: vec![("kind".into(), format!("x{k}")), ("gen".into(), "bulk-exhaustive".into())], nontrivial: expected_valid(k, p) || near_miss(k, p) });
        } }
        // 7. the compile-time literal macros on the exhaustive strings of length <= 3 and the reserved-word edits
        if std::env::var("VERIF_C09_NO_MACRO").is_err() {
            let mut lits: Vec<String> = short.clone();
            lits.extend(edit_set.iter().cloned());
            lits.extend(points.iter().map(|c| c.to_string()));
            // every case variant of every reserved word alone and with the prefixes / suffixes a Z 0 . - _ / space, and the
            // look-alike / decorated strings
            lits.extend(case_alone.iter().cloned());
            for v in &case_alone { for a in ['a', 'Z', '0', '.', '-', '_', '/', ' '] { lits.push(format!("{a}{v}")); lits.push(format!("{v}{a}")); } }
            lits.extend(special.iter().cloned());
            lits.extend(layout.iter().cloned());
            lits.sort();
            lits.dedup();
            for (k, _) in MACROS { for chunk in lits.chunks(1500) {
                let batch = join("/", &chunk.iter().map(|s| cps_sep(s, ".")).collect::<Vec<_>>());
                emit(Case { fields: vec![k.to_string(), "-".into(), batch], tags: vec![("kind".into(), k.to_string()), ("gen".into(), "literal-macro".into()), ("literals".into(), chunk.len().to_string())], nontrivial: true });
            } }
        }
    }
}

fn main() { cnbv::main_loop_jobs("c09", 8, &generate, &run_case) }
