//! C09 correspondence: the regex-validated newtypes (`LayerName`, `ProcessType`, `BuildpackId`, `ExecDProgramOutputKey`) and
//! `BuildpackVersion` / `BuildpackApi` of /repo/libcnb-data on generated strings, through three paths:
//! `str::parse` / `TryFrom<String>`, TOML deserialisation (`toml::from_str` of a one-field struct) and — thorough tier — the
//! compile-time literal macros (a scratch crate depending on /repo/libcnb-data by path, `cargo check --message-format=json`).
//!
//! Case fields: `<kind> <string as hex code points joined by ','; '-' = empty> <extra; '-' when unused>` (see Driver/C09.lean).
use cnbv::*;
use libcnb_data::buildpack::{BuildpackApi, BuildpackId, BuildpackVersion};
use libcnb_data::exec_d::ExecDProgramOutputKey;
use libcnb_data::launch::ProcessType;
use libcnb_data::layer::LayerName;
use serde::de::DeserializeOwned;
use serde::{Deserialize, Serialize};
use std::fmt::Display;
use std::str::FromStr;

// ------------------------------------------------------------------------------------------------ encoding
fn cps(s: &str) -> String { join(",", &s.chars().map(|c| format!("{:x}", c as u32)).collect::<Vec<_>>()) }
fn cps_sep(s: &str, sep: &str) -> String { join(sep, &s.chars().map(|c| format!("{:x}", c as u32)).collect::<Vec<_>>()) }
fn uncps(s: &str, sep: &str) -> Option<String> {
    split_list(s, sep).iter().map(|t| u32::from_str_radix(t, 16).ok().and_then(char::from_u32)).collect()
}

// ------------------------------------------------------------------------------------------------ the three paths
#[derive(Deserialize)]
struct Holder<T> { v: T }
#[derive(Serialize)]
struct HolderStr<'a> { v: &'a str }

/// TOML text `v = "<s>"` written by the toml crate; `None` if that text does not read back as the same string
/// (then the TOML path cannot be exercised for this input and the observation says so)
fn toml_doc(s: &str) -> Option<String> {
    let doc = toml::to_string(&HolderStr { v: s }).ok()?;
    match toml::from_str::<Holder<String>>(&doc) { Ok(h) if h.v == s => Some(doc), _ => None }
}
fn toml_de<T: DeserializeOwned>(s: &str) -> Result<Option<T>, ()> {
    let doc = toml_doc(s).ok_or(())?;
    Ok(toml::from_str::<Holder<T>>(&doc).ok().map(|h| h.v))
}

fn ident_result<T: Display + Serialize>(v: Option<T>) -> String {
    match v {
        None => "err".into(),
        Some(v) => {
            let ser = match toml::Value::try_from(&v) { Ok(toml::Value::String(x)) => cps(&x), _ => "not-a-string".into() };
            format!("ok:{}:{}", cps(&v.to_string()), ser)
        }
    }
}
fn ident_paths<T: FromStr + Display + Serialize + DeserializeOwned>(s: &str) -> (String, String) {
    let p = ident_result(s.parse::<T>().ok());
    let t = match toml_de::<T>(s) { Ok(v) => ident_result(v), Err(()) => "toml-text".into() };
    (p, t)
}

fn version_result(v: Option<BuildpackVersion>) -> String {
    match v {
        None => "err".into(),
        Some(v) => {
            let d = v.to_string();
            let back = match BuildpackVersion::try_from(d.clone()) { Ok(w) => format!("{}.{}.{}", w.major, w.minor, w.patch), Err(_) => "err".into() };
            format!("ok:{}.{}.{}:{}:{}", v.major, v.minor, v.patch, cps(&d), back)
        }
    }
}
fn version_paths(s: &str) -> (String, String) {
    let p = version_result(BuildpackVersion::try_from(s.to_string()).ok());
    let t = match toml_de::<BuildpackVersion>(s) { Ok(v) => version_result(v), Err(()) => "toml-text".into() };
    (p, t)
}
fn api_result(v: Option<BuildpackApi>) -> String {
    match v {
        None => "err".into(),
        Some(v) => {
            let d = v.to_string();
            let back = match BuildpackApi::try_from(d.clone()) { Ok(w) => format!("{}.{}", w.major, w.minor), Err(_) => "err".into() };
            format!("ok:{}.{}:{}:{}", v.major, v.minor, cps(&d), back)
        }
    }
}
fn api_paths(s: &str) -> (String, String) {
    let p = api_result(BuildpackApi::try_from(s.to_string()).ok());
    let t = match toml_de::<BuildpackApi>(s) { Ok(v) => api_result(v), Err(()) => "toml-text".into() };
    (p, t)
}

fn paths(kind: &str, s: &str) -> Option<(String, String)> {
    Some(match kind {
        "layer" => ident_paths::<LayerName>(s),
        "process" => ident_paths::<ProcessType>(s),
        "bpid" => ident_paths::<BuildpackId>(s),
        "execd" => ident_paths::<ExecDProgramOutputKey>(s),
        "version" => version_paths(s),
        "api" => api_paths(s),
        _ => return None,
    })
}

/// class of one string in a bulk case: `0` rejected by both paths, `1` accepted by both and displayed (serialised, re-parsed)
/// as the input, `2` accepted by both and displayed differently but re-parsed as the same value, `x` anything else
fn class_of(kind: &str, s: &str) -> char {
    let Some((p, t)) = paths(kind, s) else { return '?' };
    if p != t { return 'x'; }
    if p == "err" { return '0'; }
    let parts: Vec<&str> = p.split(':').collect();
    let me = cps(s);
    match kind {
        "layer" | "process" | "bpid" | "execd" => if parts.len() == 3 && parts[1] == me && parts[2] == me { '1' } else { 'x' },
        _ => if parts.len() == 4 && parts[1] == parts[3] { if parts[2] == me { '1' } else { '2' } } else { 'x' },
    }
}

fn enum_suffixes(alphabet: &[char], depth: usize) -> Vec<String> {
    let mut all = vec![String::new()];
    let mut cur = vec![String::new()];
    for _ in 0..depth {
        let mut next = Vec::with_capacity(cur.len() * alphabet.len());
        for w in &cur { for a in alphabet { let mut x = w.clone(); x.push(*a); next.push(x); } }
        all.extend(next.iter().cloned());
        cur = next;
    }
    all
}

// ------------------------------------------------------------------------------------------------ literal macros
const MACROS: &[(&str, &str)] = &[("mlayer", "layer_name"), ("mprocess", "process_type"), ("mbpid", "buildpack_id"), ("mexecd", "exec_d_program_output_key")];

fn collect_lines(span: &serde_json::Value, out: &mut Vec<u64>) {
    if span.get("file_name").and_then(|f| f.as_str()).map(|f| f.ends_with("src/main.rs") && !f.starts_with("/repo")).unwrap_or(false) {
        if let Some(l) = span.get("line_start").and_then(|l| l.as_u64()) { out.push(l); }
    }
    if let Some(e) = span.get("expansion") { if let Some(s) = e.get("span") { collect_lines(s, out); } }
}

/// one `cargo check` of a scratch crate with one literal-macro invocation per line; `1` = compiled, `0` = rejected by
/// the macro's `compile_error!`
fn macro_batch(mac: &str, lits: &[String]) -> String {
    let dir = match tempfile::Builder::new().prefix("c09-lit-").tempdir() { Ok(d) => d, Err(_) => return "err:tempdir".into() };
    let root = dir.path();
    let lock = std::env::var("CARGO_MANIFEST_DIR").map(|d| format!("{d}/Cargo.lock")).unwrap_or_else(|_| "/verif/harness/Cargo.lock".into());
    let lock = if std::path::Path::new(&lock).exists() { lock } else { "/verif/harness/Cargo.lock".into() };
    let mut src = String::from("#![allow(unused)]\nfn main() {\n");
    const FIRST: u64 = 3; // line number of the first literal
    for l in lits { src.push_str(&format!("let _ = libcnb_data::{mac}!({l:?});\n")); }
    src.push_str("}\n");
    let ok = std::fs::create_dir_all(root.join("src")).is_ok()
        && std::fs::write(root.join("Cargo.toml"), "[package]\nname = \"c09lit\"\nversion = \"0.0.0\"\nedition = \"2021\"\npublish = false\n[workspace]\n[dependencies]\nlibcnb-data = { path = \"/repo/libcnb-data\" }\n").is_ok()
        && std::fs::copy(&lock, root.join("Cargo.lock")).is_ok()
        && std::fs::write(root.join("src/main.rs"), src).is_ok();
    if !ok { return "err:scratch".into(); }
    let target = std::env::var("VERIF_C09_TARGET").unwrap_or_else(|_| "/verif/harness/target/c09-lit".into());
    let out = std::process::Command::new("cargo").args(["check", "--offline", "--quiet", "--message-format=json"]).current_dir(root)
        .env("CARGO_TARGET_DIR", &target).env("CARGO_NET_OFFLINE", "true").env_remove("RUSTFLAGS").output();
    let Ok(out) = out else { return "err:cargo-spawn".into() };
    let mut rejected = vec![false; lits.len()];
    let mut stray = false;
    for line in String::from_utf8_lossy(&out.stdout).lines() {
        let Ok(v) = serde_json::from_str::<serde_json::Value>(line) else { continue };
        if v.get("reason").and_then(|r| r.as_str()) != Some("compiler-message") { continue; }
        let m = &v["message"];
        if m.get("level").and_then(|l| l.as_str()) != Some("error") { continue; }
        let text = m.get("message").and_then(|t| t.as_str()).unwrap_or("");
        if text.starts_with("aborting due to") || text.starts_with("could not compile") { continue; }
        let mut lines = vec![];
        if let Some(spans) = m.get("spans").and_then(|s| s.as_array()) { for s in spans { collect_lines(s, &mut lines); } }
        let mut hit = false;
        for l in lines { if l >= FIRST && ((l - FIRST) as usize) < lits.len() && text.contains("is not a valid") { rejected[(l - FIRST) as usize] = true; hit = true; } }
        if !hit { stray = true; }
    }
    if stray { return "err:diagnostic".into(); }
    if out.status.success() != rejected.iter().all(|r| !r) { return "err:cargo".into(); }
    rejected.iter().map(|r| if *r { '0' } else { '1' }).collect()
}

// ------------------------------------------------------------------------------------------------ run
fn run_case(f: &[String]) -> String {
    if f.len() != 3 { return "bad-input".into(); }
    let (kind, s, extra) = (f[0].as_str(), f[1].as_str(), f[2].as_str());
    match kind {
        "layer" | "process" | "bpid" | "execd" | "version" | "api" => {
            let (Some(s), "-") = (uncps(s, ","), extra) else { return "bad-input".into() };
            let (p, t) = paths(kind, &s).unwrap();
            format!("p={p};t={t}")
        }
        "mlayer" | "mprocess" | "mbpid" | "mexecd" => {
            if s != "-" { return "bad-input".into(); }
            let Some(lits) = split_list(extra, "/").iter().map(|l| uncps(l, ".")).collect::<Option<Vec<String>>>() else { return "bad-input".into() };
            let mac = MACROS.iter().find(|(k, _)| *k == kind).unwrap().1;
            if lits.is_empty() { String::new() } else { macro_batch(mac, &lits) }
        }
        "xlayer" | "xprocess" | "xbpid" | "xexecd" | "xversion" | "xapi" => {
            let Some(pre) = uncps(s, ",") else { return "bad-input".into() };
            let Some((alpha, depth)) = extra.split_once('|') else { return "bad-input".into() };
            let (Some(alpha), Ok(depth)) = (uncps(alpha, "."), depth.parse::<usize>()) else { return "bad-input".into() };
            if depth > 3 { return "bad-input".into(); }
            let alphabet: Vec<char> = alpha.chars().collect();
            enum_suffixes(&alphabet, depth).iter().map(|suf| class_of(&kind[1..], &format!("{pre}{suf}"))).collect()
        }
        "vtriple" => {
            let n: Vec<u64> = extra.split('.').filter_map(|x| x.parse().ok()).collect();
            if s != "-" || n.len() != 3 || extra.split('.').count() != 3 { return "bad-input".into(); }
            let d = BuildpackVersion::new(n[0], n[1], n[2]).to_string();
            let r = match BuildpackVersion::try_from(d.clone()) { Ok(w) => format!("{}.{}.{}", w.major, w.minor, w.patch), Err(_) => "err".into() };
            format!("d={};r={}", cps(&d), r)
        }
        "apair" => {
            let n: Vec<u64> = extra.split('.').filter_map(|x| x.parse().ok()).collect();
            if s != "-" || n.len() != 2 || extra.split('.').count() != 2 { return "bad-input".into(); }
            let d = BuildpackApi { major: n[0], minor: n[1] }.to_string();
            let r = match BuildpackApi::try_from(d.clone()) { Ok(w) => format!("{}.{}", w.major, w.minor), Err(_) => "err".into() };
            format!("d={};r={}", cps(&d), r)
        }
        _ => "bad-input".into(),
    }
}

// ------------------------------------------------------------------------------------------------ generation
/// one representative per character class relevant to any of the six grammars
const ALPHABET: &[char] = &['a', 'Z', '0', '1', '.', '_', '-', '/', '+', ' ', '\n', 'é', '\0', '9'];
const KINDS: &[&str] = &["layer", "process", "bpid", "execd", "version", "api"];
const RESERVED: &[&str] = &["build", "launch", "store", "app", "config", "sbom"];

/// the harness's own reading of the grammars, used only for tags and the non-triviality rule (never for a verdict)
fn expected_valid(kind: &str, s: &str) -> bool {
    let alnum = |c: char| c.is_ascii_alphanumeric();
    let canon = |p: &str| !p.is_empty() && p.bytes().all(|b| b.is_ascii_digit()) && (p == "0" || !p.starts_with('0')) && p.parse::<u64>().is_ok();
    let plain = |p: &str| !p.is_empty() && p.bytes().all(|b| b.is_ascii_digit()) && p.parse::<u64>().is_ok();
    match kind {
        "layer" => !s.is_empty() && !s.contains('\n') && !["build", "launch", "store"].contains(&s),
        "process" => !s.is_empty() && s.chars().all(|c| alnum(c) || "._-".contains(c)),
        "bpid" => !s.is_empty() && s.chars().all(|c| alnum(c) || "./-".contains(c)) && !["app", "config", "sbom"].contains(&s),
        "execd" => !s.is_empty() && s.chars().all(|c| alnum(c) || "_-".contains(c)),
        "version" => { let p: Vec<&str> = s.split('.').collect(); p.len() == 3 && p.iter().all(|x| canon(x)) }
        "api" => { let p: Vec<&str> = s.split('.').collect(); (p.len() == 1 || p.len() == 2) && p.iter().all(|x| plain(x)) }
        _ => false,
    }
}
fn near_miss(kind: &str, s: &str) -> bool {
    let cs: Vec<char> = s.chars().collect();
    (0..cs.len()).any(|i| { let t: String = cs.iter().enumerate().filter(|(j, _)| *j != i).map(|(_, c)| *c).collect(); expected_valid(kind, &t) })
}

fn single(kind: &str, s: &str, gen_tag: &str) -> Case {
    let valid = expected_valid(kind, s);
    let near = !valid && near_miss(kind, s);
    let n = s.chars().count();
    let len = if n <= 5 { n.to_string() } else if n <= 12 { "6-12".into() } else { "13+".into() };
    Case {
        fields: vec![kind.to_string(), cps(s), "-".into()],
        tags: vec![("kind".into(), kind.into()), ("gen".into(), gen_tag.into()), ("len".into(), len), ("class".into(), if valid { "valid" } else if near { "near-miss" } else { "invalid" }.into())],
        nontrivial: valid || near,
    }
}

/// regex literals of the four `libcnb_newtype!` invocations, read from /repo with syn: their alphanumeric words seed
/// candidate strings (so that an added or dropped reserved word is exercised whatever it is)
fn source_words() -> Vec<String> {
    let mut words = vec![];
    for f in ["layer.rs", "launch.rs", "buildpack/id.rs", "exec_d.rs"] {
        let Ok(src) = std::fs::read_to_string(format!("/repo/libcnb-data/src/{f}")) else { continue };
        let Ok(file) = syn::parse_file(&src) else { continue };
        for it in &file.items {
            if let syn::Item::Macro(m) = it {
                if m.mac.path.segments.last().map(|s| s.ident == "libcnb_newtype").unwrap_or(false) {
                    let last = m.mac.tokens.clone().into_iter().filter_map(|t| if let proc_macro2::TokenTree::Literal(l) = t { Some(l) } else { None }).last();
                    if let Some(l) = last { if let Ok(ls) = syn::parse_str::<syn::LitStr>(&l.to_string()) {
                        let mut w = String::new();
                        for c in ls.value().chars().chain(std::iter::once('|')) { if c.is_alphanumeric() { w.push(c); } else { if w.chars().count() >= 2 { words.push(w.clone()); } w.clear(); } }
                    } }
                }
            }
        }
    }
    words.sort();
    words.dedup();
    words
}

fn edits(word: &str) -> Vec<String> {
    let cs: Vec<char> = word.chars().collect();
    let mut out = vec![word.to_string(), word.to_uppercase()];
    for a in ALPHABET {
        out.push(format!("{a}{word}"));
        out.push(format!("{word}{a}"));
        for i in 0..cs.len() { let mut t = cs.clone(); t[i] = *a; out.push(t.iter().collect()); }
        for i in 1..cs.len() { let mut t = cs.clone(); t.insert(i, *a); out.push(t.iter().collect()); }
    }
    for i in 0..cs.len() { let mut t = cs.clone(); t.remove(i); out.push(t.iter().collect()); }
    out.sort();
    out.dedup();
    out
}

const BOUNDARY: &[u64] = &[0, 1, 9, 10, 99, 4294967295, 4294967296, 9223372036854775807, 9223372036854775808, 18446744073709551614, 18446744073709551615];
/// number-like components for version / API strings: canonical, leading zeros, signs, whitespace, overflow, empty
const COMPONENTS: &[&str] = &["0", "1", "10", "007", "00", "01", "+1", "-1", "+0", " 1", "1 ", "", "1_0", "١", "1e3", "0x1",
    "18446744073709551615", "18446744073709551616", "18446744073709551617", "99999999999999999999", "018446744073709551615", "000000000000000000000000000001", "+18446744073709551615"];

fn random_string(kind: &str, rng: &mut Rng) -> String {
    let good: Vec<char> = match kind {
        "layer" => "abcXYZ019 ._-/+é~\u{0}\u{7f}\u{10ffff}".chars().collect(),
        "process" => "abcXYZ019._-".chars().collect(),
        "bpid" => "abcXYZ019./-".chars().collect(),
        "execd" => "abcXYZ019_-".chars().collect(),
        _ => "0123456789".chars().collect(),
    };
    let bad: Vec<char> = "+ \n\té\u{0}~,:*\\\"'/_.-١Ａ\u{2028}".chars().collect();
    if kind == "version" || kind == "api" {
        let parts = if kind == "version" { *rng.pick(&[3usize, 3, 3, 3, 2, 4]) } else { *rng.pick(&[1usize, 2, 2, 2, 3]) };
        let mut v: Vec<String> = (0..parts).map(|_| match rng.below(6) {
            0 => rng.pick(COMPONENTS).to_string(),
            1 => rng.pick(BOUNDARY).to_string(),
            2 => format!("{}", rng.next()),
            3 => format!("{}{}", rng.next(), rng.below(1000)),
            _ => rng.below(3000).to_string(),
        }).collect();
        if rng.chance(1, 4) { let i = rng.below(v.len() as u64) as usize; let mut cs: Vec<char> = v[i].chars().collect(); let at = rng.below(cs.len() as u64 + 1) as usize; cs.insert(at, *rng.pick(&bad)); v[i] = cs.into_iter().collect(); }
        return v.join(".");
    }
    let n = rng.range(4, 40) as usize;
    let mut cs: Vec<char> = (0..n).map(|_| *rng.pick(&good)).collect();
    match rng.below(4) {
        0 => { let at = rng.below(n as u64) as usize; cs[at] = *rng.pick(&bad); }
        1 => { let at = rng.below(n as u64 + 1) as usize; cs.insert(at, *rng.pick(&bad)); }
        _ => {}
    }
    cs.into_iter().collect()
}

fn generate(tier: &str, seed: u64, emit: &mut dyn FnMut(Case)) {
    let thorough = tier == "thorough";
    let search = std::env::var("VERIF_SEARCH").is_ok();
    // 1. bounded exhaustive: every string of length <= 3 over the 14-symbol alphabet, for every kind
    let short = enum_suffixes(ALPHABET, 3);
    for k in KINDS { for s in &short { emit(single(k, s, "exhaustive")); } }
    // 2. reserved words (of every type, on every kind) and the words found in the regex sources, with every one-character
    //    prefix / suffix / substitution / insertion / deletion over the alphabet
    let mut words: Vec<String> = RESERVED.iter().map(|s| s.to_string()).collect();
    for w in source_words() { if !words.contains(&w) && w != "alnum" { words.push(w); } }
    let mut edit_set: Vec<String> = vec![];
    for w in &words { edit_set.extend(edits(w)); }
    edit_set.sort();
    edit_set.dedup();
    for k in &["layer", "process", "bpid", "execd"] { for s in &edit_set { emit(single(k, s, "reserved-edit")); } }
    // 3. every code point 0..=0x17f (and some beyond) alone and inside `a?a`: finds any widened or narrowed class
    let mut points: Vec<char> = (0u32..=0x17f).filter_map(char::from_u32).collect();
    points.extend(['\u{7ff}', '\u{800}', '\u{d7ff}', '\u{e000}', '\u{ffff}', '\u{10000}', '\u{10ffff}', '\u{2028}', '\u{660}', '\u{ff11}']);
    for k in KINDS { for c in &points { emit(single(k, &c.to_string(), "code-point")); emit(single(k, &format!("a{c}a"), "code-point")); emit(single(k, &format!("1.{c}.1"), "code-point")); } }
    // 4. version / API strings from number-like components (signs, zeros, whitespace, overflow) and u64 boundary values
    for a in COMPONENTS { for b in COMPONENTS {
        emit(single("api", &format!("{a}.{b}"), "components"));
        for c in &["0", "1", "+1", "01", "18446744073709551615", "18446744073709551616", " 1", ""] { emit(single("version", &format!("{a}.{b}.{c}"), "components")); emit(single("version", &format!("{c}.{a}.{b}"), "components")); }
    } emit(single("api", a, "components")); emit(single("version", a, "components")); }
    for a in BOUNDARY { for b in BOUNDARY {
        emit(Case { fields: vec!["apair".into(), "-".into(), format!("{a}.{b}")], tags: vec![("kind".into(), "apair".into()), ("gen".into(), "boundary".into())], nontrivial: true });
        emit(single("api", &format!("{a}.{b}"), "boundary"));
        for c in BOUNDARY {
            emit(Case { fields: vec!["vtriple".into(), "-".into(), format!("{a}.{b}.{c}")], tags: vec![("kind".into(), "vtriple".into()), ("gen".into(), "boundary".into())], nontrivial: true });
            if thorough { emit(single("version", &format!("{a}.{b}.{c}"), "boundary")); }
        }
    } }
    // 5. seeded random longer strings (mostly valid, one injected fault in about half of them) and random u64 triples
    let n_rand = if thorough { 200_000 } else { 20_000 };
    for i in 0..n_rand {
        let mut rng = Rng::for_case(seed, i);
        let k = KINDS[(i % 6) as usize];
        emit(single(k, &random_string(k, &mut rng), "random"));
    }
    // 5b. long strings around typical size limits (the grammars have no length bound): valid identifiers and digit strings of
    //     length 63..66, 127..130, 255..258, 511..514, 1023..1026, 2047..2050 (UTF-8 bytes and, for layer names,
    //     the same number of multi-byte characters), plus the same with one invalid character at the start / middle / end
    for k in ["layer", "process", "bpid", "execd"] {
        for base in [64usize, 128, 256, 512, 1024, 2048] { for d in [-1i64, 0, 1, 2] {
            let n = (base as i64 + d) as usize;
            let body: String = (0..n).map(|j| ['a', 'Z', '7', '-'][j % 4]).collect();
            emit(single(k, &body, "long"));
            if n <= 4097 {
                for pos in [0usize, n / 2, n - 1] { let mut cs: Vec<char> = body.chars().collect(); cs[pos] = ' '; emit(single(k, &cs.iter().collect::<String>(), "long")); }
                if k == "layer" { let mb: String = (0..n).map(|j| ['é', '🦀', 'a'][j % 3]).collect(); emit(single(k, &mb, "long")); }
            }
        } }
    }
    for n in [19usize, 20, 21, 39, 40, 255, 256, 257] {
        let digits: String = (0..n).map(|j| char::from(b'1' + (j % 9) as u8)).collect();
        emit(single("version", &format!("1.{digits}.3"), "long"));
        emit(single("api", &format!("0.{digits}"), "long"));
        let zeros = "0".repeat(n);
        emit(single("api", &format!("{zeros}.{zeros}"), "long"));
        emit(single("version", &format!("{zeros}.1.1"), "long"));
    }
    for i in 0..(if thorough { 20_000 } else { 2_000 }) {
        let mut rng = Rng::for_case(seed ^ 0x5eed, i);
        let mut n = || { let x = rng.next(); match rng.below(4) { 0 => x, 1 => x >> 32, 2 => x >> 54, _ => *rng.pick(BOUNDARY) } };
        let (a, b, c) = (n(), n(), n());
        emit(Case { fields: vec!["vtriple".into(), "-".into(), format!("{a}.{b}.{c}")], tags: vec![("kind".into(), "vtriple".into()), ("gen".into(), "random".into())], nontrivial: true });
        emit(Case { fields: vec!["apair".into(), "-".into(), format!("{a}.{b}")], tags: vec![("kind".into(), "apair".into()), ("gen".into(), "random".into())], nontrivial: true });
    }
    if thorough || search {
        // 6. every string of length 3..=5 over the alphabet, for every kind: one bulk case per 3-character prefix
        //    (also in the search rounds that follow a broken tie, whatever the tier)
        let alpha = cps_sep(&ALPHABET.iter().collect::<String>(), ".");
        for k in KINDS { for p in short.iter().filter(|s| s.chars().count() == 3) {
            emit(Case { fields: vec![format!("x{k}"), cps(p), format!("{alpha}|2")], tags: vec![("kind".into(), format!("x{k}")), ("gen".into(), "bulk-exhaustive".into())], nontrivial: expected_valid(k, p) || near_miss(k, p) });
        } }
        // 7. the compile-time literal macros on the exhaustive strings of length <= 3 and the reserved-word edits
        if std::env::var("VERIF_C09_NO_MACRO").is_err() {
            let mut lits: Vec<String> = short.clone();
            lits.extend(edit_set.iter().cloned());
            lits.extend(points.iter().map(|c| c.to_string()));
            lits.sort();
            lits.dedup();
            for (k, _) in MACROS { for chunk in lits.chunks(1500) {
                let batch = join("/", &chunk.iter().map(|s| cps_sep(s, ".")).collect::<Vec<_>>());
                emit(Case { fields: vec![k.to_string(), "-".into(), batch], tags: vec![("kind".into(), k.to_string()), ("gen".into(), "literal-macro".into()), ("literals".into(), chunk.len().to_string())], nontrivial: true });
            } }
        }
    }
}

fn main() { cnbv::main_loop_jobs("c09", 8, &generate, &run_case) }
