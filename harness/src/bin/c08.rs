//! C08 correspondence: real `toml::from_str::<T>` for the public CNB types on a corpus of valid documents
//! (optional-key subsets, nested metadata) and every single-point mutation of them.
//! fields = [type name, document as a value tree]; observation = `reject` | `ok <decoded value>`.
use cnbv::tomlwire::{V, from_wire, to_wire};
use cnbv::*;
use libcnb_data::buildpack::{Buildpack, BuildpackDescriptor, BuildpackTarget, ComponentBuildpackDescriptor, CompositeBuildpackDescriptor, Distro, Group, License, Order, Stack};
use libcnb_data::buildpack_plan::{BuildpackPlan, Entry};
use libcnb_data::generic::GenericMetadata;
use libcnb_data::launch::{Label, Launch, Process, Slice, WorkingDirectory};
use libcnb_data::layer_content_metadata::{LayerContentMetadata, LayerTypes};
use libcnb_data::package_descriptor::{PackageDescriptor, PlatformOs};
use libcnb_data::sbom::SbomFormat;
use libcnb_data::store::Store;
use toml::Value;

// ---------------------------------------------------------------- typed values -> model vocabulary (by hand, not via serde)
fn table(t: &toml::Table) -> V { V::X(Value::Table(t.clone())) }
fn gm(m: &GenericMetadata) -> V { match m { Some(t) => table(t), None => V::N } }
fn sbom(f: &SbomFormat) -> &'static str {
    match f { SbomFormat::CycloneDxJson => "application/vnd.cyclonedx+json", SbomFormat::SpdxJson => "application/spdx+json", SbomFormat::SyftJson => "application/vnd.syft+json" }
}
fn license(l: &License) -> V { V::rec(vec![("type", V::opt_s(&l.r#type)), ("uri", V::opt_s(&l.uri))]) }
fn buildpack(b: &Buildpack) -> V {
    let mut formats: Vec<&str> = b.sbom_formats.iter().map(sbom).collect();
    formats.sort();
    V::rec(vec![
        ("id", V::S(b.id.to_string())), ("name", V::opt_s(&b.name)),
        ("version", V::S(format!("{}.{}.{}", b.version.major, b.version.minor, b.version.patch))),
        ("homepage", V::opt_s(&b.homepage)), ("clear-env", V::B(b.clear_env)), ("description", V::opt_s(&b.description)),
        ("keywords", V::strs(&b.keywords)), ("licenses", V::A(b.licenses.iter().map(license).collect())), ("sbom-formats", V::strs(formats)),
    ])
}
fn stack(s: &Stack) -> V { V::rec(vec![("id", V::S(s.id.clone())), ("mixins", V::strs(&s.mixins))]) }
fn distro(d: &Distro) -> V { V::rec(vec![("name", V::S(d.name.clone())), ("version", V::S(d.version.clone()))]) }
fn target(t: &BuildpackTarget) -> V {
    V::rec(vec![("os", V::opt_s(&t.os)), ("arch", V::opt_s(&t.arch)), ("variant", V::opt_s(&t.variant)), ("distros", V::A(t.distros.iter().map(distro).collect()))])
}
fn group(g: &Group) -> V {
    V::rec(vec![("id", V::S(g.id.to_string())), ("version", V::S(format!("{}.{}.{}", g.version.major, g.version.minor, g.version.patch))), ("optional", V::B(g.optional))])
}
fn order(o: &Order) -> V { V::rec(vec![("group", V::A(o.group.iter().map(group).collect()))]) }
fn component(d: &ComponentBuildpackDescriptor<GenericMetadata>) -> V {
    V::rec(vec![("api", V::S(format!("{}.{}", d.api.major, d.api.minor))), ("buildpack", buildpack(&d.buildpack)),
        ("stacks", V::A(d.stacks.iter().map(stack).collect())), ("targets", V::A(d.targets.iter().map(target).collect())), ("metadata", gm(&d.metadata))])
}
fn composite(d: &CompositeBuildpackDescriptor<GenericMetadata>) -> V {
    V::rec(vec![("api", V::S(format!("{}.{}", d.api.major, d.api.minor))), ("buildpack", buildpack(&d.buildpack)),
        ("order", V::A(d.order.iter().map(order).collect())), ("metadata", gm(&d.metadata))])
}
fn descriptor(d: &BuildpackDescriptor<GenericMetadata>) -> V {
    match d { BuildpackDescriptor::Component(c) => V::Var(0, Box::new(component(c))), BuildpackDescriptor::Composite(c) => V::Var(1, Box::new(composite(c))) }
}
fn entry(e: &Entry) -> V { V::rec(vec![("name", V::S(e.name.clone())), ("metadata", table(&e.metadata))]) }
fn plan(p: &BuildpackPlan) -> V { V::rec(vec![("entries", V::A(p.entries.iter().map(entry).collect()))]) }
fn label(l: &Label) -> V { V::rec(vec![("key", V::S(l.key.clone())), ("value", V::S(l.value.clone()))]) }
pub fn process(p: &Process) -> V {
    V::rec(vec![("type", V::S(p.r#type.to_string())), ("command", V::strs(&p.command)), ("args", V::strs(&p.args)), ("default", V::B(p.default)),
        ("working-dir", match &p.working_directory { WorkingDirectory::App => V::N, WorkingDirectory::Directory(d) => V::S(d.to_string_lossy().into_owned()) })])
}
fn slice(s: &Slice) -> V { V::rec(vec![("paths", V::strs(&s.path_globs))]) }
fn launch(l: &Launch) -> V {
    V::rec(vec![("labels", V::A(l.labels.iter().map(label).collect())), ("processes", V::A(l.processes.iter().map(process).collect())), ("slices", V::A(l.slices.iter().map(slice).collect()))])
}
fn layer_types(t: &LayerTypes) -> V { V::rec(vec![("launch", V::B(t.launch)), ("build", V::B(t.build)), ("cache", V::B(t.cache))]) }
fn layer(l: &LayerContentMetadata<GenericMetadata>) -> V {
    V::rec(vec![("types", match &l.types { Some(t) => layer_types(t), None => V::N }), ("metadata", gm(&l.metadata))])
}
fn store(s: &Store) -> V { V::rec(vec![("metadata", table(&s.metadata))]) }
fn package(p: &PackageDescriptor) -> V {
    let uri = |u: &dyn std::fmt::Display| V::rec(vec![("uri", V::S(u.to_string()))]);
    V::rec(vec![("buildpack", uri(&p.buildpack.uri)), ("dependencies", V::A(p.dependencies.iter().map(|d| uri(&d.uri)).collect())),
        ("platform", V::rec(vec![("os", V::S(match p.platform.os { PlatformOs::Linux => "linux", PlatformOs::Windows => "windows" }.to_string()))]))])
}

fn parse_as(ty: &str, text: &str) -> Option<String> {
    fn go<T: serde::de::DeserializeOwned>(text: &str, dump: impl Fn(&T) -> V) -> String {
        match toml::from_str::<T>(text) { Ok(v) => format!("ok {}", dump(&v).render()), Err(_) => "reject".to_string() }
    }
    Some(match ty {
        "BuildpackDescriptor" => go::<BuildpackDescriptor<GenericMetadata>>(text, descriptor),
        "ComponentBuildpackDescriptor" => go::<ComponentBuildpackDescriptor<GenericMetadata>>(text, component),
        "CompositeBuildpackDescriptor" => go::<CompositeBuildpackDescriptor<GenericMetadata>>(text, composite),
        "BuildpackPlan" => go::<BuildpackPlan>(text, plan),
        "Launch" => go::<Launch>(text, launch),
        "Process" => go::<Process>(text, process),
        "LayerContentMetadata" => go::<LayerContentMetadata<GenericMetadata>>(text, layer),
        "Store" => go::<Store>(text, store),
        "PackageDescriptor" => go::<PackageDescriptor>(text, package),
        "BuildpackTarget" => go::<BuildpackTarget>(text, target),
        _ => return None,
    })
}

fn run_case(f: &[String]) -> String {
    let Some(doc) = from_wire(&f[1]) else { return "bad-case".into() };
    // the document reaches the real parser as TOML text
    let Ok(text) = toml::to_string(&doc) else { return "unserialisable-document".into() };
    parse_as(&f[0], &text).unwrap_or_else(|| "bad-case".into())
}

// ---------------------------------------------------------------- corpus
const COMPONENT: &str = r#"
api = "0.10"
[buildpack]
id = "foo/bar"
name = "Bar Buildpack"
version = "1.2.3"
homepage = "https://example.tld"
clear-env = true
description = "A buildpack"
keywords = ["foo", "bar"]
sbom-formats = ["application/vnd.syft+json", "application/spdx+json", "application/vnd.syft+json"]
[[buildpack.licenses]]
type = "BSD-3-Clause"
uri = "https://example.tld/license"
[[buildpack.licenses]]
[[stacks]]
id = "io.buildpacks.stacks.focal"
mixins = ["build:jq", "wget"]
[[stacks]]
id = "*"
[[targets]]
os = "linux"
arch = "arm"
variant = "v8"
[[targets.distros]]
name = "ubuntu"
version = "18.04"
[[targets]]
[metadata]
checksum = "abc123"
n = 7
flag = false
ratio = 1.5
when = 1979-05-27T07:32:00Z
list = [1, "two", [3.25, true], { k = "v" }]
[metadata.nested.deeper]
order = "free-form: not the descriptor's order"
"#;
const COMPOSITE: &str = r#"
api = "0.10"
[buildpack]
id = "foo/meta"
name = "Meta"
version = "0.0.1"
homepage = "https://example.tld"
clear-env = false
description = "composite"
keywords = ["x"]
sbom-formats = ["application/vnd.cyclonedx+json"]
[[buildpack.licenses]]
type = "MIT"
[[order]]
[[order.group]]
id = "foo/bar"
version = "1.2.3"
[[order.group]]
id = "foo/baz"
version = "10.20.30"
optional = true
[[order]]
[[order.group]]
id = "foo/bar"
version = "1.2.3"
optional = false
[metadata]
targets = ["free-form"]
[metadata.t]
a = 1
"#;
const PLAN: &str = r#"
[[entries]]
name = "rust"
[entries.metadata]
version = "1.39"
features = ["a", 2, { b = true }]
[entries.metadata.sub]
x = 1.5
[[entries]]
name = "empty-metadata"
[entries.metadata]
[[entries]]
name = "no-metadata"
"#;
const LAUNCH: &str = r#"
[[labels]]
key = "io.example.label"
value = "some \"value\"\nwith lines"
[[labels]]
key = ""
value = ""
[[processes]]
type = "web"
command = ["bundle", "exec"]
args = ["ruby", "app.rb"]
default = true
working-dir = "/workspace/sub dir"
[[processes]]
type = "worker_2.x-y"
command = []
[[processes]]
type = "dot"
command = ["x"]
args = []
default = false
working-dir = "."
[[slices]]
paths = ["public/**", "*.md"]
[[slices]]
paths = []
"#;
const LAYER: &str = r#"
[types]
launch = true
build = false
cache = true
[metadata]
version = "1.2.3"
n = -3
[metadata.types]
launch = "free-form"
"#;
const STORE: &str = r#"
[metadata]
pinned = "2.7"
[metadata.deep]
a = [1, 2]
b = 2.5
"#;
const PACKAGE: &str = r#"
[buildpack]
uri = "."
[[dependencies]]
uri = "libcnb:foo/bar"
[[dependencies]]
uri = "../relative/dir"
[[dependencies]]
uri = "docker://docker.io/heroku/procfile-cnb:2.0.0"
[platform]
os = "windows"
"#;
const TARGET: &str = r#"
os = "linux"
arch = "amd64"
variant = "v3"
[[distros]]
name = "ubuntu"
version = "22.04"
"#;

/// declaration orders of the libcnb structs (generator guidance only: which positional arrays are worth trying)
const DECL_ORDERS: &[&[&str]] = &[
    &["type", "command", "args", "default", "working-dir"], &["launch", "build", "cache"], &["key", "value"], &["id", "version", "optional"],
    &["os", "arch", "variant", "distros"], &["name", "version"], &["uri"], &["os"], &["id", "mixins"], &["paths"], &["group"], &["type", "uri"],
    &["id", "name", "version", "homepage", "clear-env", "description", "keywords", "licenses", "sbom-formats"], &["name", "metadata"],
    &["types", "metadata"], &["labels", "processes", "slices"], &["buildpack", "dependencies", "platform"],
];

/// valid, not in RFC 3986 normal form, and delivered verbatim by the unchanged code (upper-case host / unregistered scheme,
/// dot segments, percent-encoded unreserved characters in both hex cases, trailing dot in the host, userinfo, default port)
const URI_NONNORMAL: &[&str] = &["docker://Docker.IO/heroku/example:1.2.3", "DOCKER://docker.io/x", "LIBCNB:foo/bar", "Libcnb:Foo", "https://h/releases/./x.cnb",
    "file:///workspace/packaged/../buildpacks/meta", "https://h/%7Eteam/node%2ejs.cnb", "https://h/%7eteam", "https://Example.TLD./a", "https://EXAMPLE.tld:443/a/b/../../c",
    "../a/./b/../c", "https://user:PW@Host/x", "http://h:80/", "x-custom+v1.2://Host/P", "https://h/a//b/", "https://h/%E2%9C%93?Q=%7e#Frag"];
/// valid, re-printed by uriparse at parse time (registered scheme lower-cased, port as a number, '/' after an authority with empty path)
const URI_RESPELLED: &[&str] = &["HTTPS://Example.TLD/a", "FILE:///x", "URN:cnb:registry:heroku/java", "https://h:0080/x", "https://h:/x", "https://u:p@h:007", "docker://docker.io",
    "https://h?q", "https://h#f", "//host", "x://h:", "https://h.."];
const URI_INVALID: &[&str] = &["a b", "https://h/%zz", "2:x", ":x", "https://h:65536/x", "https://h:8a/x", "https://h/\u{e9}", "https://h/a#b#c", "https://h/a?b[c", "https://h/{x}"];

#[derive(Clone, Debug)]
enum Seg { Key(String), Idx(usize) }
type Path = Vec<Seg>;

fn at<'a>(v: &'a mut Value, p: &[Seg]) -> &'a mut Value {
    let mut cur = v;
    for s in p { cur = match s { Seg::Key(k) => cur.as_table_mut().unwrap().get_mut(k).unwrap(), Seg::Idx(i) => cur.as_array_mut().unwrap().get_mut(*i).unwrap() }; }
    cur
}
/// every node of the document, depth first (tables sorted by key)
fn nodes(v: &Value, here: &mut Path, out: &mut Vec<Path>) {
    out.push(here.clone());
    match v {
        Value::Table(t) => { let mut ks: Vec<&String> = t.keys().collect(); ks.sort(); for k in ks { here.push(Seg::Key(k.clone())); nodes(&t[k], here, out); here.pop(); } }
        Value::Array(a) => for (i, x) in a.iter().enumerate() { here.push(Seg::Idx(i)); nodes(x, here, out); here.pop(); },
        _ => {}
    }
}
fn get<'a>(v: &'a Value, p: &[Seg]) -> &'a Value {
    let mut cur = v;
    for s in p { cur = match s { Seg::Key(k) => &cur.as_table().unwrap()[k], Seg::Idx(i) => &cur.as_array().unwrap()[*i] }; }
    cur
}
fn in_free_form(p: &[Seg]) -> bool { p.iter().any(|s| matches!(s, Seg::Key(k) if k == "metadata")) }

/// every single-point mutation of a document: (kind, mutated document)
fn mutations(ty: &str, doc: &Value) -> Vec<(String, Value)> {
    let mut out = vec![];
    let mut all = vec![];
    nodes(doc, &mut vec![], &mut all);
    for p in &all {
        let node = get(doc, p);
        let zone = if in_free_form(p) { "free" } else { "typed" };
        // 1. an undefined key in every table
        if node.is_table() {
            for (k, val) in [("zz-undefined", Value::String("x".into())), ("Id", Value::Integer(1))] {
                let mut d = doc.clone();
                at(&mut d, p).as_table_mut().unwrap().insert(k.into(), val);
                out.push((format!("unknown-key/{zone}"), d));
            }
        }
        // 2. delete every key / 3. delete every array element
        if let Some((last, parent)) = p.split_last() {
            let mut d = doc.clone();
            match last { Seg::Key(k) => { at(&mut d, parent).as_table_mut().unwrap().remove(k); out.push((format!("delete-key/{zone}"), d)); }
                         Seg::Idx(i) => { at(&mut d, parent).as_array_mut().unwrap().remove(*i); out.push((format!("delete-element/{zone}"), d)); } }
            // 4. retype every value
            let retyped: Vec<Value> = match node {
                Value::String(_) => vec![Value::Integer(7), Value::Boolean(true), Value::Array(vec![Value::String("x".into())]), Value::Table(toml::Table::new())],
                Value::Integer(_) => vec![Value::String("7".into()), Value::Float(7.0)],
                Value::Float(_) => vec![Value::String("1.5".into())],
                Value::Boolean(_) => vec![Value::String("true".into()), Value::Integer(1)],
                Value::Datetime(_) => vec![Value::String("1979-05-27T07:32:00Z".into())],
                Value::Array(_) => vec![Value::String("x".into()), Value::Table(toml::Table::new())],
                Value::Table(_) => vec![Value::String("x".into()), Value::Array(vec![]), Value::Boolean(false)],
            };
            for r in retyped { let mut d = doc.clone(); *at(&mut d, p) = r; out.push((format!("retype/{zone}"), d)); }
            // 4b. the two shapes serde's data model also reads: a struct as a positional array, a unit-variant enum as { variant = {} }
            if let Value::Table(t) = node {
                for o in DECL_ORDERS.iter().filter(|o| !t.is_empty() && t.keys().all(|k| o.contains(&k.as_str()))) {
                    let arr: Vec<Value> = o.iter().filter_map(|k| t.get(*k).cloned()).collect();
                    let mut longer = arr.clone(); longer.push(Value::Integer(1));
                    for a in [arr, longer] { let mut d = doc.clone(); *at(&mut d, p) = Value::Array(a); out.push((format!("table-as-array/{zone}"), d)); }
                }
            }
            // 4c. URI references: valid but not in RFC 3986 normal form (kept verbatim by the code), spellings uriparse
            //     re-prints at parse time, and invalid references
            if let (Value::String(_), Some(Seg::Key(k))) = (node, p.last()) {
                if k == "uri" {
                    for (class, list) in [("uri-nonnormal", URI_NONNORMAL), ("uri-respelled", URI_RESPELLED), ("uri-invalid", URI_INVALID)] {
                        for u in list { let mut d = doc.clone(); *at(&mut d, p) = Value::String(u.to_string()); out.push((class.to_string(), d)); }
                    }
                }
            }
            if let Value::String(sv) = node {
                for inner in [Value::Table(toml::Table::new()), Value::Array(vec![]), Value::String("x".into())] {
                    let mut t = toml::Table::new(); t.insert(sv.clone(), inner);
                    let mut d = doc.clone(); *at(&mut d, p) = Value::Table(t); out.push((format!("string-as-table/{zone}"), d));
                }
            }
        }
    }
    // 5. descriptors: add order / targets / stacks (valid values) at the top level
    if ty.ends_with("BuildpackDescriptor") {
        let extra: Value = toml::from_str("[[order]]\n[[order.group]]\nid = \"a/b\"\nversion = \"1.0.0\"\n[[targets]]\nos = \"linux\"\n[[stacks]]\nid = \"*\"\n").unwrap();
        for k in ["order", "targets", "stacks"] {
            for empty in [false, true] {
                let mut d = doc.clone();
                let t = d.as_table_mut().unwrap();
                if t.contains_key(k) { continue; }
                t.insert(k.into(), if empty { Value::Array(vec![]) } else { extra[k].clone() });
                out.push((format!("add-{k}"), d));
            }
        }
    }
    out
}

/// every subset of the keys of every table outside free-form positions (the other tables unchanged)
fn key_subsets(doc: &Value) -> Vec<Value> {
    let mut out = vec![];
    let mut all = vec![];
    nodes(doc, &mut vec![], &mut all);
    for p in all.iter().filter(|p| !in_free_form(p)) {
        if let Value::Table(t) = get(doc, p) {
            let keys: Vec<String> = { let mut k: Vec<String> = t.keys().cloned().collect(); k.sort(); k };
            if keys.is_empty() || keys.len() > 10 { continue; }
            for mask in 0u32..(1 << keys.len()) - 1 { // the full set is the document itself
                let mut d = doc.clone();
                let tab = at(&mut d, p).as_table_mut().unwrap();
                for (i, k) in keys.iter().enumerate() { if mask & (1 << i) == 0 { tab.remove(k); } }
                out.push(d);
            }
        }
    }
    out
}

fn case(ty: &str, doc: &Value, kind: &str, nontrivial: bool) -> Case {
    let depth = { let mut all = vec![]; nodes(doc, &mut vec![], &mut all); all.iter().map(Vec::len).max().unwrap_or(0) };
    Case { fields: vec![ty.to_string(), to_wire(doc)], tags: vec![("kind".into(), kind.into()), ("type".into(), ty.into()), ("depth".into(), depth.min(9).to_string())], nontrivial }
}

fn generate(tier: &str, seed: u64, emit: &mut dyn FnMut(Case)) {
    let thorough = tier == "thorough";
    let bases: Vec<(&str, &str)> = vec![
        ("BuildpackDescriptor", COMPONENT), ("BuildpackDescriptor", COMPOSITE),
        ("ComponentBuildpackDescriptor", COMPONENT), ("CompositeBuildpackDescriptor", COMPOSITE),
        ("ComponentBuildpackDescriptor", COMPOSITE), ("CompositeBuildpackDescriptor", COMPONENT),
        ("BuildpackPlan", PLAN), ("Launch", LAUNCH), ("LayerContentMetadata", LAYER), ("Store", STORE), ("PackageDescriptor", PACKAGE),
        ("BuildpackTarget", TARGET), ("BuildpackPlan", ""), ("Launch", ""), ("LayerContentMetadata", ""), ("Store", "[metadata]\n"),
    ];
    let mut idx = 0u64;
    for (ty, text) in &bases {
        let doc: Value = Value::Table(toml::from_str::<toml::Table>(text).unwrap());
        emit(case(ty, &doc, "base", false));
        // (a) every single-point mutation of the maximal document
        for (k, d) in mutations(ty, &doc) { emit(case(ty, &d, &k, true)); }
        // (b) all optional-key subsets, table by table
        let subs = key_subsets(&doc);
        for d in &subs { emit(case(ty, d, "key-subset", true)); }
        // (c) every single-point mutation of some (quick) / many (thorough) of the subset documents
        let pick = if thorough { 120 } else { 10 };
        for j in 0..pick.min(subs.len()) {
            idx += 1;
            let mut r = Rng::for_case(seed, idx);
            let d = &subs[r.below(subs.len() as u64) as usize];
            let _ = j;
            for (k, m) in mutations(ty, d) { emit(case(ty, &m, &format!("{k}+subset"), true)); }
        }
        // (d) thorough: two-point mutations (a mutation of a mutation), sampled
        if thorough {
            let first = mutations(ty, &doc);
            for j in 0..400.min(first.len()) {
                idx += 1;
                let mut r = Rng::for_case(seed, idx);
                let (k1, d1) = &first[r.below(first.len() as u64) as usize];
                let second = mutations(ty, d1);
                if second.is_empty() { continue; }
                let _ = j;
                for _ in 0..8 { let (k2, d2) = &second[r.below(second.len() as u64) as usize]; emit(case(ty, d2, &format!("two-point:{k1}&{k2}"), true)); }
            }
        }
    }
}

fn main() { main_loop_jobs("c08", 8, &generate, &run_case); }
