//! C08 correspondence: real `toml::from_str::<T>` for the public CNB types on a corpus of valid documents
//! (optional-key subsets, nested metadata) and every single-point mutation of them.
//! fields = [type name, document as a value tree, optionally hex(TOML text of that tree in some layout)];
//! observation = `reject` | `ok <decoded value>` (the same through `toml::from_str::<T>` and libcnb-common's `read_toml_file::<T>`,
//! else `paths-differ …`); `layout-mismatch` when the supplied text does not denote the tree.
use cnbv::tomllayout::{self, Style};
use cnbv::tomlwire::{V, from_wire, to_wire};
use cnbv::*;
use libcnb_data::buildpack::{Buildpack, BuildpackDescriptor, BuildpackTarget, ComponentBuildpackDescriptor, CompositeBuildpackDescriptor, Distro, Group, License, Order, Stack};
use libcnb_data::buildpack_plan::{BuildpackPlan, Entry};
use libcnb_data::generic::GenericMetadata;
use libcnb_data::launch::{Label, Launch, Process, Slice, WorkingDirectory};
use libcnb_data::layer_content_metadata::{LayerContentMetadata, LayerTypes};
use libcnb_data::package_descriptor::{PackageDescriptor, PlatformOs};
use libcnb_data::sbom::SbomFormat;
use libcnb_data::store::Store;
use toml::Value;

// ---------------------------------------------------------------- typed values -> model vocabulary (by hand, not via serde)
fn table(t: &toml::Table) -> V { V::X(Value::Table(t.clone())) }
fn gm(m: &GenericMetadata) -> V { match m { Some(t) => table(t), None => V::N } }
fn sbom(f: &SbomFormat) -> &'static str {
    match f { SbomFormat::CycloneDxJson => "application/vnd.cyclonedx+json", SbomFormat::SpdxJson => "application/spdx+json", SbomFormat::SyftJson => "application/vnd.syft+json" }
}
fn license(l: &License) -> V { V::rec(vec![("type", V::opt_s(&l.r#type)), ("uri", V::opt_s(&l.uri))]) }
fn buildpack(b: &Buildpack) -> V {
    let mut formats: Vec<&str> = b.sbom_formats.iter().map(sbom).collect();
    formats.sort();
    V::rec(vec![
        ("id", V::S(b.id.to_string())), ("name", V::opt_s(&b.name)),
        ("version", V::S(format!("{}.{}.{}", b.version.major, b.version.minor, b.version.patch))),
        ("homepage", V::opt_s(&b.homepage)), ("clear-env", V::B(b.clear_env)), ("description", V::opt_s(&b.description)),
        ("keywords", V::strs(&b.keywords)), ("licenses", V::A(b.licenses.iter().map(license).collect())), ("sbom-formats", V::strs(formats)),
    ])
}
fn stack(s: &Stack) -> V { V::rec(vec![("id", V::S(s.id.clone())), ("mixins", V::strs(&s.mixins))]) }
fn distro(d: &Distro) -> V { V::rec(vec![("name", V::S(d.name.clone())), ("version", V::S(d.version.clone()))]) }
fn target(t: &BuildpackTarget) -> V {
    V::rec(vec![("os", V::opt_s(&t.os)), ("arch", V::opt_s(&t.arch)), ("variant", V::opt_s(&t.variant)), ("distros", V::A(t.distros.iter().map(distro).collect()))])
}
fn group(g: &Group) -> V {
    V::rec(vec![("id", V::S(g.id.to_string())), ("version", V::S(format!("{}.{}.{}", g.version.major, g.version.minor, g.version.patch))), ("optional", V::B(g.optional))])
}
fn order(o: &Order) -> V { V::rec(vec![("group", V::A(o.group.iter().map(group).collect()))]) }
fn component(d: &ComponentBuildpackDescriptor<GenericMetadata>) -> V {
    V::rec(vec![("api", V::S(format!("{}.{}", d.api.major, d.api.minor))), ("buildpack", buildpack(&d.buildpack)),
        ("stacks", V::A(d.stacks.iter().map(stack).collect())), ("targets", V::A(d.targets.iter().map(target).collect())), ("metadata", gm(&d.metadata))])
}
fn composite(d: &CompositeBuildpackDescriptor<GenericMetadata>) -> V {
    V::rec(vec![("api", V::S(format!("{}.{}", d.api.major, d.api.minor))), ("buildpack", buildpack(&d.buildpack)),
        ("order", V::A(d.order.iter().map(order).collect())), ("metadata", gm(&d.metadata))])
}
fn descriptor(d: &BuildpackDescriptor<GenericMetadata>) -> V {
    match d { BuildpackDescriptor::Component(c) => V::Var(0, Box::new(component(c))), BuildpackDescriptor::Composite(c) => V::Var(1, Box::new(composite(c))) }
}
fn entry(e: &Entry) -> V { V::rec(vec![("name", V::S(e.name.clone())), ("metadata", table(&e.metadata))]) }
fn plan(p: &BuildpackPlan) -> V { V::rec(vec![("entries", V::A(p.entries.iter().map(entry).collect()))]) }
fn label(l: &Label) -> V { V::rec(vec![("key", V::S(l.key.clone())), ("value", V::S(l.value.clone()))]) }
pub fn process(p: &Process) -> V {
    V::rec(vec![("type", V::S(p.r#type.to_string())), ("command", V::strs(&p.command)), ("args", V::strs(&p.args)), ("default", V::B(p.default)),
        ("working-dir", match &p.working_directory { WorkingDirectory::App => V::N, WorkingDirectory::Directory(d) => V::S(d.to_string_lossy().into_owned()) })])
}
fn slice(s: &Slice) -> V { V::rec(vec![("paths", V::strs(&s.path_globs))]) }
fn launch(l: &Launch) -> V {
    V::rec(vec![("labels", V::A(l.labels.iter().map(label).collect())), ("processes", V::A(l.processes.iter().map(process).collect())), ("slices", V::A(l.slices.iter().map(slice).collect()))])
}
fn layer_types(t: &LayerTypes) -> V { V::rec(vec![("launch", V::B(t.launch)), ("build", V::B(t.build)), ("cache", V::B(t.cache))]) }
fn layer(l: &LayerContentMetadata<GenericMetadata>) -> V {
    V::rec(vec![("types", match &l.types { Some(t) => layer_types(t), None => V::N }), ("metadata", gm(&l.metadata))])
}
fn store(s: &Store) -> V { V::rec(vec![("metadata", table(&s.metadata))]) }
fn package(p: &PackageDescriptor) -> V {
    let uri = |u: &dyn std::fmt::Display| V::rec(vec![("uri", V::S(u.to_string()))]);
    V::rec(vec![("buildpack", uri(&p.buildpack.uri)), ("dependencies", V::A(p.dependencies.iter().map(|d| uri(&d.uri)).collect())),
        ("platform", V::rec(vec![("os", V::S(match p.platform.os { PlatformOs::Linux => "linux", PlatformOs::Windows => "windows" }.to_string()))]))])
}

fn parse_as(ty: &str, text: &str, via_file: bool) -> Option<String> {
    fn go<T: serde::de::DeserializeOwned>(text: &str, via_file: bool, dump: impl Fn(&T) -> V) -> String {
        if via_file {
            // the way libcnb itself reads these documents: libcnb_common::toml_file::read_toml_file
            let Ok(mut f) = tempfile::Builder::new().prefix("c08-").suffix(".toml").tempfile() else { return "io-error:tempfile".into() };
            if std::io::Write::write_all(&mut f, text.as_bytes()).is_err() || std::io::Write::flush(&mut f).is_err() { return "io-error:write".into(); }
            return match libcnb_common::toml_file::read_toml_file::<T>(f.path()) {
                Ok(v) => format!("ok {}", dump(&v).render()),
                Err(libcnb_common::toml_file::TomlFileError::TomlDeserializationError(_)) => "reject".to_string(),
                Err(_) => "io-error:read".to_string(),
            };
        }
        match toml::from_str::<T>(text) { Ok(v) => format!("ok {}", dump(&v).render()), Err(_) => "reject".to_string() }
    }
    Some(match ty {
        "BuildpackDescriptor" => go::<BuildpackDescriptor<GenericMetadata>>(text, via_file, descriptor),
        "ComponentBuildpackDescriptor" => go::<ComponentBuildpackDescriptor<GenericMetadata>>(text, via_file, component),
        "CompositeBuildpackDescriptor" => go::<CompositeBuildpackDescriptor<GenericMetadata>>(text, via_file, composite),
        "BuildpackPlan" => go::<BuildpackPlan>(text, via_file, plan),
        "Launch" => go::<Launch>(text, via_file, launch),
        "Process" => go::<Process>(text, via_file, process),
        "LayerContentMetadata" => go::<LayerContentMetadata<GenericMetadata>>(text, via_file, layer),
        "Store" => go::<Store>(text, via_file, store),
        "PackageDescriptor" => go::<PackageDescriptor>(text, via_file, package),
        "BuildpackTarget" => go::<BuildpackTarget>(text, via_file, target),
        _ => return None,
    })
}

fn run_case(f: &[String]) -> String {
    if f.len() != 2 && f.len() != 3 { return "bad-case".into(); }
    let Some(doc) = from_wire(&f[1]) else { return "bad-case".into() };
    // the document reaches the real parser as TOML text: the toml crate's own spelling, or the layout the case carries
    let text = if f.len() == 3 {
        let Some(t) = unhex(&f[2]).and_then(|b| String::from_utf8(b).ok()) else { return "bad-case".into() };
        match toml::from_str::<Value>(&t) { Ok(back) if tomllayout::same_tree(&back, &doc) => t, _ => return "layout-mismatch".into() }
    } else {
        let Ok(t) = toml::to_string(&doc) else { return "unserialisable-document".into() };
        t
    };
    let Some(a) = parse_as(&f[0], &text, false) else { return "bad-case".into() };
    // cases that carry their text are also read the way libcnb reads these documents (from a file, `read_toml_file`)
    if f.len() == 3 {
        let Some(b) = parse_as(&f[0], &text, true) else { return "bad-case".into() };
        if a != b { return format!("paths-differ from_str=<{a}> read_toml_file=<{b}>"); }
    }
    a
}

// ---------------------------------------------------------------- corpus
const COMPONENT: &str = r#"
api = "0.10"
[buildpack]
id = "foo/bar"
name = "Bar Buildpack"
version = "1.2.3"
homepage = "https://example.tld"
clear-env = true
description = "A buildpack"
keywords = ["foo", "bar"]
sbom-formats = ["application/vnd.syft+json", "application/spdx+json", "application/vnd.syft+json"]
[[buildpack.licenses]]
type = "BSD-3-Clause"
uri = "https://example.tld/license"
[[buildpack.licenses]]
[[stacks]]
id = "io.buildpacks.stacks.focal"
mixins = ["build:jq", "wget"]
[[stacks]]
id = "*"
[[targets]]
os = "linux"
arch = "arm"
variant = "v8"
[[targets.distros]]
name = "ubuntu"
version = "18.04"
[[targets]]
[metadata]
checksum = "abc123"
n = 7
flag = false
ratio = 1.5
when = 1979-05-27T07:32:00Z
list = [1, "two", [3.25, true], { k = "v" }]
[metadata.nested.deeper]
order = "free-form: not the descriptor's order"
"#;
const COMPOSITE: &str = r#"
api = "0.10"
[buildpack]
id = "foo/meta"
name = "Meta"
version = "0.0.1"
homepage = "https://example.tld"
clear-env = false
description = "composite"
keywords = ["x"]
sbom-formats = ["application/vnd.cyclonedx+json"]
[[buildpack.licenses]]
type = "MIT"
[[order]]
[[order.group]]
id = "foo/bar"
version = "1.2.3"
[[order.group]]
id = "foo/baz"
version = "10.20.30"
optional = true
[[order]]
[[order.group]]
id = "foo/bar"
version = "1.2.3"
optional = false
[metadata]
targets = ["free-form"]
[metadata.t]
a = 1
"#;
const PLAN: &str = r#"
[[entries]]
name = "rust"
[entries.metadata]
version = "1.39"
features = ["a", 2, { b = true }]
[entries.metadata.sub]
x = 1.5
[[entries]]
name = "empty-metadata"
[entries.metadata]
[[entries]]
name = "no-metadata"
"#;
const LAUNCH: &str = r#"
[[labels]]
key = "io.example.label"
value = "some \"value\"\nwith lines"
[[labels]]
key = ""
value = ""
[[processes]]
type = "web"
command = ["bundle", "exec"]
args = ["ruby", "app.rb"]
default = true
working-dir = "/workspace/sub dir"
[[processes]]
type = "worker_2.x-y"
command = []
[[processes]]
type = "dot"
command = ["x"]
args = []
default = false
working-dir = "."
[[slices]]
paths = ["public/**", "*.md"]
[[slices]]
paths = []
"#;
const LAYER: &str = r#"
[types]
launch = true
build = false
cache = true
[metadata]
version = "1.2.3"
n = -3
[metadata.types]
launch = "free-form"
"#;
const STORE: &str = r#"
[metadata]
pinned = "2.7"
[metadata.deep]
a = [1, 2]
b = 2.5
"#;
const PACKAGE: &str = r#"
[buildpack]
uri = "."
[[dependencies]]
uri = "libcnb:foo/bar"
[[dependencies]]
uri = "../relative/dir"
[[dependencies]]
uri = "docker://docker.io/heroku/procfile-cnb:2.0.0"
[platform]
os = "windows"
"#;
const TARGET: &str = r#"
os = "linux"
arch = "amd64"
variant = "v3"
[[distros]]
name = "ubuntu"
version = "22.04"
"#;

/// declaration orders of the libcnb structs (generator guidance only: which positional arrays are worth trying)
const DECL_ORDERS: &[&[&str]] = &[
    &["type", "command", "args", "default", "working-dir"], &["launch", "build", "cache"], &["key", "value"], &["id", "version", "optional"],
    &["os", "arch", "variant", "distros"], &["name", "version"], &["uri"], &["os"], &["id", "mixins"], &["paths"], &["group"], &["type", "uri"],
    &["id", "name", "version", "homepage", "clear-env", "description", "keywords", "licenses", "sbom-formats"], &["name", "metadata"],
    &["types", "metadata"], &["labels", "processes", "slices"], &["buildpack", "dependencies", "platform"],
];

/// valid, not in RFC 3986 normal form, and delivered verbatim by the unchanged code (upper-case host / unregistered scheme,
/// dot segments, percent-encoded unreserved characters in both hex cases, trailing dot in the host, userinfo, default port)
const URI_NONNORMAL: &[&str] = &["docker://Docker.IO/heroku/example:1.2.3", "DOCKER://docker.io/x", "LIBCNB:foo/bar", "Libcnb:Foo", "https://h/releases/./x.cnb",
    "file:///workspace/packaged/../buildpacks/meta", "https://h/%7Eteam/node%2ejs.cnb", "https://h/%7eteam", "https://Example.TLD./a", "https://EXAMPLE.tld:443/a/b/../../c",
    "../a/./b/../c", "https://user:PW@Host/x", "http://h:80/", "x-custom+v1.2://Host/P", "https://h/a//b/", "https://h/%E2%9C%93?Q=%7e#Frag"];
/// valid, re-printed by uriparse at parse time (registered scheme lower-cased, port as a number, '/' after an authority with empty path)
const URI_RESPELLED: &[&str] = &["HTTPS://Example.TLD/a", "FILE:///x", "URN:cnb:registry:heroku/java", "https://h:0080/x", "https://h:/x", "https://u:p@h:007", "docker://docker.io",
    "https://h?q", "https://h#f", "//host", "x://h:", "https://h.."];
const URI_INVALID: &[&str] = &["a b", "https://h/%zz", "2:x", ":x", "https://h:65536/x", "https://h:8a/x", "https://h/\u{e9}", "https://h/a#b#c", "https://h/a?b[c", "https://h/{x}"];

#[derive(Clone, Debug)]
enum Seg { Key(String), Idx(usize) }
type Path = Vec<Seg>;

fn at<'a>(v: &'a mut Value, p: &[Seg]) -> &'a mut Value {
    let mut cur = v;
    for s in p { cur = match s { Seg::Key(k) => cur.as_table_mut().unwrap().get_mut(k).unwrap(), Seg::Idx(i) => cur.as_array_mut().unwrap().get_mut(*i).unwrap() }; }
    cur
}
/// every node of the document, depth first (tables sorted by key)
fn nodes(v: &Value, here: &mut Path, out: &mut Vec<Path>) {
    out.push(here.clone());
    match v {
        Value::Table(t) => { let mut ks: Vec<&String> = t.keys().collect(); ks.sort(); for k in ks { here.push(Seg::Key(k.clone())); nodes(&t[k], here, out); here.pop(); } }
        Value::Array(a) => for (i, x) in a.iter().enumerate() { here.push(Seg::Idx(i)); nodes(x, here, out); here.pop(); },
        _ => {}
    }
}
fn get<'a>(v: &'a Value, p: &[Seg]) -> &'a Value {
    let mut cur = v;
    for s in p { cur = match s { Seg::Key(k) => &cur.as_table().unwrap()[k], Seg::Idx(i) => &cur.as_array().unwrap()[*i] }; }
    cur
}
fn in_free_form(p: &[Seg]) -> bool { p.iter().any(|s| matches!(s, Seg::Key(k) if k == "metadata")) }

/// every single-point mutation of a document: (kind, mutated document)
fn mutations(ty: &str, doc: &Value) -> Vec<(String, Value)> { mutations_x(ty, doc, false, false) }

fn long_string(n: usize) -> String { (0..n).map(|j| ['a', 'Z', '7', '-', '.', 'x'][j % 6]).collect() }
fn fullwidth(k: &str) -> String { k.chars().map(|c| if ('!'..='~').contains(&c) { char::from_u32(c as u32 + 0xfee0).unwrap() } else { c }).collect() }

/// spellings close to a defined key: other case, `-`/`_` swapped or dropped, camelCase, plural / singular, padded with
/// white space / BOM, fullwidth, a Cyrillic look-alike first letter, dotted
fn key_variants(k: &str) -> Vec<String> {
    let mut v = vec![k.to_uppercase(), k.to_lowercase(), k.replace('-', "_"), k.replace('_', "-"), k.replace(['-', '_'], ""), format!("{k}s"), format!(" {k}"), format!("{k} "),
        format!("{k}\n"), format!("\u{feff}{k}"), fullwidth(k), format!("{k}."), format!(".{k}"), format!("{k}.{k}")];
    let mut cs: Vec<char> = k.chars().collect();
    if let Some(c) = cs.first_mut() { *c = c.to_ascii_uppercase(); }
    v.push(cs.iter().collect());
    // camelCase
    let mut camel = String::new(); let mut up = false;
    for c in k.chars() { if c == '-' || c == '_' { up = true; } else if up { camel.push(c.to_ascii_uppercase()); up = false; } else { camel.push(c); } }
    v.push(camel);
    if let Some(st) = k.strip_suffix('s') { v.push(st.to_string()); }
    let look = [('a', '\u{430}'), ('c', '\u{441}'), ('e', '\u{435}'), ('o', '\u{43e}'), ('p', '\u{440}'), ('i', '\u{456}'), ('s', '\u{455}'), ('k', '\u{212a}'), ('d', '\u{501}'), ('n', '\u{578}'), ('u', '\u{57d}')];
    let mut cs: Vec<char> = k.chars().collect();
    if let Some(c) = cs.first_mut() { if let Some((_, l)) = look.iter().find(|(a, _)| a == c) { *c = *l; v.push(cs.iter().collect()); } }
    v.retain(|x| x != k);
    v.sort(); v.dedup();
    v
}
/// names a reader might also look for, whatever the table
const FOREIGN_KEYS: &[&str] = &["", " ", "\u{43a}\u{43b}\u{44e}\u{447}", "\u{65e5}\u{672c}", "a.b", "a b", "#", "=", "0", "true", "metadata", "Metadata", "order", "Order", "targets", "stacks", "group", "api", "buildpack",
    "id", "version", "name", "type", "uri", "os", "arch", "entries", "processes", "types", "launch", "default", "optional", "mixins", "distros", "key", "value", "paths"];

/// one value of every TOML kind
fn every_kind() -> Vec<Value> {
    let mut t = toml::Table::new(); t.insert("k".into(), Value::String("v".into()));
    vec![Value::String("x".into()), Value::String(String::new()), Value::Integer(1), Value::Boolean(true), Value::Boolean(false), Value::Float(1.5), Value::Datetime("1979-05-27T07:32:00Z".parse().unwrap()),
        Value::Array(vec![]), Value::Array(vec![Value::String("x".into())]), Value::Table(toml::Table::new()), Value::Table(t)]
}

/// values a string field may be given, by the key it sits under (`None`: an array element): the field's own vocabulary in
/// several spellings, then shapes any string may take
fn string_pool(ty: &str, key: Option<&str>, parent: Option<&str>, thorough: bool) -> Vec<String> {
    let mut v: Vec<String> = vec![];
    let mut add = |xs: &[&str]| v.extend(xs.iter().map(|x| x.to_string()));
    match (key, parent) {
        (Some("os"), _) => add(&["linux", "windows", "Linux", "LINUX", "Windows", "WINDOWS", "darwin", "freebsd", "linux ", " windows", "win32", "*"]),
        (Some("arch"), _) => add(&["amd64", "arm64", "arm", "386", "x86_64", "aarch64", "AMD64", "ppc64le", "s390x", "riscv64", "*"]),
        (Some("variant"), _) => add(&["v6", "v7", "v8", "V8", "v8.2"]),
        (Some("api"), _) => add(&["0.10", "0.9", "0.11", "0.12", "0.8", "1.0", "1", "0", "00.010", "10.0", "0.10.0", "0.1e1", "+0.10", "v0.10", "0.18446744073709551615", "0.18446744073709551616", "0.", ".10", "0,10", "0.10 ", " 0.10", "0.\u{661}"]),
        (Some("version"), Some("distros")) => add(&["24.04", "22.04", "3.19", "bookworm", "12", "*"]),
        (Some("version"), _) => add(&["0.0.0", "1.2.3", "01.2.3", "1.02.3", "1.2", "1.2.3.4", "v1.2.3", "1.2.3-rc1", "1.2.3+b", "18446744073709551615.0.0", "18446744073709551616.0.0", "+1.2.3", " 1.2.3", "1.2.3\n", "1..3", "1.2.\u{663}", "*"]),
        (Some("id"), Some("stacks")) => add(&["*", "heroku-24", "io.buildpacks.stacks.jammy", "**", " *"]),
        (Some("id"), _) => add(&["app", "App", "APP", "config", "Config", "sbom", "Sbom", "build", "launch", "store", "a/b", "a b", "a_b", "\u{e9}", "heroku/nodejs-engine", "io.buildpacks.x", "-", ".", "/", "a/", "app/", "sbom.x"]),
        (Some("type"), Some("processes")) => add(&["web", "Web", "WEB", "worker", "a.b_c-d", "a/b", "\u{e9}", " web", "web ", "web\n", "-", ".", "_", "build", "launch"]),
        (Some("working-dir"), _) => add(&[".", "/", "./", "..", "a/./b", "/workspace", "rel/dir", " .", "~", "C:\\x", "dir with space/\u{e9}"]),
        (None, Some("sbom-formats")) => add(&["application/vnd.cyclonedx+json", "application/spdx+json", "application/vnd.syft+json", "application/VND.cyclonedx+json", "Application/spdx+json", "application/json", "application/spdx+json ", "spdx", "cdx"]),
        _ => {}
    }
    add(&["", " ", " padded ", "x\n", "x\r\n", "\n", "\u{feff}x", "x\u{feff}", "\u{0}", "a\u{0}b", "\u{e9}", "e\u{301}", "\u{ff57}\u{ff45}\u{ff42}", "true", "false", "0", "1.0", "1979-05-27", "[]", "{}", "*", ".", "..", "/", "A", "null", "nil", "\"quoted\"", "'single'", "tab\there", "\u{1f980}", "\u{202e}rtl", "%20", "a+b", "-x", "\\",
        "# not a comment", "a # b", "[table]", "[[x]]", "key = value", "'''", "\"\"\"", "a\\nb", "trailing \\", "{ inline = 1 }", "line1\nline2\n", "  indented\n\ttabbed"]);
    v.push(long_string(255)); v.push(long_string(256)); v.push(long_string(257)); v.push(long_string(4096));
    if thorough { v.push(long_string(65535)); v.push(long_string(65536)); v.push(long_string(65537)); }
    let _ = ty;
    v.sort(); v.dedup();
    v
}

/// `rich`: additionally the directed families that go with the maximal documents only (undefined keys in many spellings and
/// with every value kind, value pools for every scalar, the empty value of every kind, duplicated array elements, more retypes)
fn mutations_x(ty: &str, doc: &Value, rich: bool, thorough: bool) -> Vec<(String, Value)> {
    let mut out = vec![];
    let mut all = vec![];
    nodes(doc, &mut vec![], &mut all);
    for p in &all {
        let node = get(doc, p);
        let zone = if in_free_form(p) { "free" } else { "typed" };
        // 1. an undefined key in every table
        if node.is_table() {
            for (k, val) in [("zz-undefined", Value::String("x".into())), ("Id", Value::Integer(1))] {
                let mut d = doc.clone();
                at(&mut d, p).as_table_mut().unwrap().insert(k.into(), val);
                out.push((format!("unknown-key/{zone}"), d));
            }
            if rich {
                let t = node.as_table().unwrap();
                // 1b. the undefined key with a value of every kind
                for val in every_kind() { let mut d = doc.clone(); at(&mut d, p).as_table_mut().unwrap().insert("zz-undefined".into(), val); out.push((format!("unknown-key-kinds/{zone}"), d)); }
                // 1c. undefined keys spelled almost like the table's own keys, and names defined elsewhere in the formats
                //     (inside free-form tables, where every key is to be kept: five odd names only)
                let mut names: Vec<String> = vec![];
                if zone == "typed" { for k in t.keys() { names.extend(key_variants(k)); } names.extend(FOREIGN_KEYS.iter().map(|x| x.to_string())); }
                else { names.extend(["", "\u{43a}\u{43b}\u{44e}\u{447}", "a.b", "metadata", "Id"].iter().map(|x| x.to_string())); }
                names.sort(); names.dedup();
                // 1d. a defined key renamed to a close spelling (the key itself then is missing and an undefined one present)
                if zone == "typed" {
                    for k in t.keys() {
                        let mut close = vec![k.to_uppercase(), k.replace('-', "_"), k.replace('_', "-"), k.replace(['-', '_'], ""), format!("{k}s")];
                        let mut cs: Vec<char> = k.chars().collect();
                        if let Some(c) = cs.first_mut() { *c = c.to_ascii_uppercase(); }
                        close.push(cs.iter().collect());
                        let mut camel = String::new(); let mut up = false;
                        for c in k.chars() { if c == '-' || c == '_' { up = true; } else if up { camel.push(c.to_ascii_uppercase()); up = false; } else { camel.push(c); } }
                        close.push(camel);
                        if let Some(st) = k.strip_suffix('s') { close.push(st.to_string()); }
                        close.sort(); close.dedup();
                        for v in close.iter().filter(|v| *v != k && !t.contains_key(v.as_str())) {
                            if p.is_empty() && ty.ends_with("BuildpackDescriptor") && ["order", "targets", "stacks"].contains(&v.as_str()) { continue; }
                            let mut d = doc.clone();
                            let tab = at(&mut d, p).as_table_mut().unwrap();
                            let val = tab.remove(k).unwrap();
                            tab.insert(v.clone(), val);
                            out.push((format!("rename-key/{zone}"), d));
                        }
                    }
                }
                for name in names.iter().filter(|n| !t.contains_key(n.as_str())) {
                    // top-level order / targets / stacks of a descriptor are family 5's business
                    if p.is_empty() && ty.ends_with("BuildpackDescriptor") && ["order", "targets", "stacks"].contains(&name.as_str()) { continue; }
                    let val = if name.to_lowercase().contains("metadata") { Value::Table(toml::Table::new()) } else { Value::String("x".into()) };
                    let mut d = doc.clone(); at(&mut d, p).as_table_mut().unwrap().insert(name.clone(), val); out.push((format!("unknown-key-variant/{zone}"), d));
                }
            }
        }
        // 2. delete every key / 3. delete every array element
        if let Some((last, parent)) = p.split_last() {
            let mut d = doc.clone();
            match last { Seg::Key(k) => { at(&mut d, parent).as_table_mut().unwrap().remove(k); out.push((format!("delete-key/{zone}"), d)); }
                         Seg::Idx(i) => { at(&mut d, parent).as_array_mut().unwrap().remove(*i); out.push((format!("delete-element/{zone}"), d)); } }
            // 4. retype every value
            let retyped: Vec<Value> = match node {
                Value::String(_) => vec![Value::Integer(7), Value::Boolean(true), Value::Array(vec![Value::String("x".into())]), Value::Table(toml::Table::new())],
                Value::Integer(_) => vec![Value::String("7".into()), Value::Float(7.0)],
                Value::Float(_) => vec![Value::String("1.5".into())],
                Value::Boolean(_) => vec![Value::String("true".into()), Value::Integer(1)],
                Value::Datetime(_) => vec![Value::String("1979-05-27T07:32:00Z".into())],
                Value::Array(_) => vec![Value::String("x".into()), Value::Table(toml::Table::new())],
                Value::Table(_) => vec![Value::String("x".into()), Value::Array(vec![]), Value::Boolean(false)],
            };
            for r in retyped { let mut d = doc.clone(); *at(&mut d, p) = r; out.push((format!("retype/{zone}"), d)); }
            if rich {
                // 4a. more kinds and boundary numbers: floats and datetimes where strings are expected (`api = 0.10`), i64 bounds,
                //     non-finite floats, arrays / tables with content
                let dt = |t: &str| Value::Datetime(t.parse().unwrap());
                let mut tab = toml::Table::new(); tab.insert("k".into(), Value::String("v".into()));
                let more: Vec<Value> = vec![Value::Float(0.10), Value::Float(1.0), Value::Float(-0.0), Value::Float(f64::INFINITY), Value::Float(f64::NEG_INFINITY), Value::Float(f64::NAN), Value::Float(1e300), Value::Float(5e-324),
                    Value::Integer(0), Value::Integer(1), Value::Integer(-1), Value::Integer(i64::MAX), Value::Integer(i64::MIN), Value::Integer(1 << 53), Value::Boolean(false),
                    dt("1979-05-27T07:32:00Z"), dt("1979-05-27"), dt("07:32:00"), dt("1979-05-27T00:32:00.999999-07:00"),
                    Value::Array(vec![Value::Integer(1), Value::String("two".into())]), Value::Array(vec![Value::Array(vec![])]), Value::Table(tab), Value::String(String::new())];
                let here = to_wire(node);
                // (a datetime in place of the free-form `metadata` table is accepted by the code: known finding C08-F5, the toml crate hands a
                // datetime to serde as the one-key map { "$__toml_private_datetime" = "<text>" }, which `toml::Table` reads)
                for (j, r) in more.into_iter().enumerate() {
                    if to_wire(&r) == here { continue; }
                    // inside free-form values (kept verbatim whatever they are) a quarter of the list
                    if zone == "free" && !matches!(p.last(), Some(Seg::Key(k)) if k == "metadata") && j % 4 != 0 { continue; }
                    let mut d = doc.clone(); *at(&mut d, p) = r; out.push((format!("retype-more/{zone}"), d));
                }
                // 4d. value pools: every string by the vocabulary of its key and by the shapes any string may take
                if let Value::String(sv) = node {
                    let key = p.iter().rev().find_map(|s| if let Seg::Key(k) = s { Some(k.as_str()) } else { None });
                    let keys: Vec<&str> = p.iter().filter_map(|s| if let Seg::Key(k) = s { Some(k.as_str()) } else { None }).collect();
                    let is_elem = matches!(p.last(), Some(Seg::Idx(_)));
                    let parent = if is_elem { keys.last().copied() } else if keys.len() >= 2 { Some(keys[keys.len() - 2]) } else { None };
                    let uri_of_package = ty == "PackageDescriptor" && key == Some("uri");
                    if !uri_of_package {
                        let pool = if zone == "free" { vec!["".to_string(), " padded ".into(), "x\r\n".into(), "\u{feff}x".into(), "\u{0}".into(), "e\u{301}".into(), long_string(4096)] } else { string_pool(ty, if is_elem { None } else { key }, parent, thorough) };
                        for x in pool { if x == *sv { continue; } let mut d = doc.clone(); *at(&mut d, p) = Value::String(x); out.push((format!("value-pool/{zone}"), d)); }
                    }
                }
                // 4e. the empty value of the node's own kind (optional key present but empty / at its default)
                let empty = match node { Value::String(_) => Value::String(String::new()), Value::Integer(_) => Value::Integer(0), Value::Float(_) => Value::Float(0.0), Value::Boolean(b) => Value::Boolean(!*b),
                    Value::Datetime(_) => dt("0000-01-01"), Value::Array(_) => Value::Array(vec![]), Value::Table(_) => Value::Table(toml::Table::new()) };
                if to_wire(&empty) != here { let mut d = doc.clone(); *at(&mut d, p) = empty; out.push((format!("empty-value/{zone}"), d)); }
                // 4f. duplicated array elements (first again at the end, last again at the front, every element twice)
                if let Value::Array(a) = node { if !a.is_empty() {
                    let mut d1 = doc.clone(); at(&mut d1, p).as_array_mut().unwrap().push(a[0].clone()); out.push((format!("duplicate-element/{zone}"), d1));
                    let mut d2 = doc.clone(); at(&mut d2, p).as_array_mut().unwrap().insert(0, a[a.len() - 1].clone()); out.push((format!("duplicate-element/{zone}"), d2));
                    let mut d3 = doc.clone(); *at(&mut d3, p) = Value::Array(a.iter().flat_map(|x| [x.clone(), x.clone()]).collect()); out.push((format!("duplicate-element/{zone}"), d3));
                } }
            }
            // 4b. the two shapes serde's data model also reads: a struct as a positional array, a unit-variant enum as { variant = {} }
            if let Value::Table(t) = node {
                for o in DECL_ORDERS.iter().filter(|o| !t.is_empty() && t.keys().all(|k| o.contains(&k.as_str()))) {
                    let arr: Vec<Value> = o.iter().filter_map(|k| t.get(*k).cloned()).collect();
                    let mut longer = arr.clone(); longer.push(Value::Integer(1));
                    for a in [arr, longer] { let mut d = doc.clone(); *at(&mut d, p) = Value::Array(a); out.push((format!("table-as-array/{zone}"), d)); }
                }
            }
            // 4c. URI references: valid but not in RFC 3986 normal form (kept verbatim by the code), spellings uriparse
            //     re-prints at parse time, and invalid references
            if let (Value::String(_), Some(Seg::Key(k))) = (node, p.last()) {
                if k == "uri" {
                    for (class, list) in [("uri-nonnormal", URI_NONNORMAL), ("uri-respelled", URI_RESPELLED), ("uri-invalid", URI_INVALID)] {
                        for u in list { let mut d = doc.clone(); *at(&mut d, p) = Value::String(u.to_string()); out.push((class.to_string(), d)); }
                    }
                }
            }
            if let Value::String(sv) = node {
                for inner in [Value::Table(toml::Table::new()), Value::Array(vec![]), Value::String("x".into())] {
                    let mut t = toml::Table::new(); t.insert(sv.clone(), inner);
                    let mut d = doc.clone(); *at(&mut d, p) = Value::Table(t); out.push((format!("string-as-table/{zone}"), d));
                }
            }
        }
    }
    // 5. descriptors: add order / targets / stacks (valid values) at the top level
    if ty.ends_with("BuildpackDescriptor") {
        let extra: Value = toml::from_str("[[order]]\n[[order.group]]\nid = \"a/b\"\nversion = \"1.0.0\"\n[[targets]]\nos = \"linux\"\n[[stacks]]\nid = \"*\"\n").unwrap();
        for k in ["order", "targets", "stacks"] {
            for empty in [false, true] {
                let mut d = doc.clone();
                let t = d.as_table_mut().unwrap();
                if t.contains_key(k) { continue; }
                t.insert(k.into(), if empty { Value::Array(vec![]) } else { extra[k].clone() });
                out.push((format!("add-{k}"), d));
            }
        }
    }
    out
}

/// every subset of the keys of every table outside free-form positions (the other tables unchanged)
fn key_subsets(doc: &Value) -> Vec<Value> {
    let mut out = vec![];
    let mut all = vec![];
    nodes(doc, &mut vec![], &mut all);
    for p in all.iter().filter(|p| !in_free_form(p)) {
        if let Value::Table(t) = get(doc, p) {
            let keys: Vec<String> = { let mut k: Vec<String> = t.keys().cloned().collect(); k.sort(); k };
            if keys.is_empty() || keys.len() > 10 { continue; }
            for mask in 0u32..(1 << keys.len()) - 1 { // the full set is the document itself
                let mut d = doc.clone();
                let tab = at(&mut d, p).as_table_mut().unwrap();
                for (i, k) in keys.iter().enumerate() { if mask & (1 << i) == 0 { tab.remove(k); } }
                out.push(d);
            }
        }
    }
    out
}

fn case(ty: &str, doc: &Value, kind: &str, nontrivial: bool) -> Case {
    let depth = { let mut all = vec![]; nodes(doc, &mut vec![], &mut all); all.iter().map(Vec::len).max().unwrap_or(0) };
    Case { fields: vec![ty.to_string(), to_wire(doc)], tags: vec![("kind".into(), kind.into()), ("type".into(), ty.into()), ("depth".into(), depth.min(9).to_string())], nontrivial }
}
/// the same document carried as TOML text in the given layout (third field)
fn case_layout(ty: &str, doc: &Value, kind: &str, st: &Style, style_tag: &str, r: &mut Rng) -> Case {
    let text = tomllayout::emit(doc.as_table().unwrap(), st, r);
    let mut c = case(ty, doc, kind, true);
    c.fields.push(hex(text.as_bytes()));
    c.tags.push(("layout".into(), style_tag.into()));
    c
}

// ---------------------------------------------------------------- big documents
fn s(x: &str) -> Value { Value::String(x.into()) }
fn tbl(kv: Vec<(&str, Value)>) -> Value { let mut t = toml::Table::new(); for (k, v) in kv { t.insert(k.into(), v); } Value::Table(t) }
fn arr(n: usize, f: impl Fn(usize) -> Value) -> Value { Value::Array((0..n).map(f).collect()) }
fn bp_table(id: &str, n: usize) -> Value {
    tbl(vec![("id", s(id)), ("version", s("1.2.3")), ("name", s("Big")), ("keywords", arr(n, |i| s(&format!("kw{i}")))),
        ("licenses", arr(n, |i| tbl(vec![("type", s(&format!("L-{i}"))), ("uri", s(&format!("https://example.tld/{i}")))]))),
        ("sbom-formats", arr(n, |i| s(["application/vnd.cyclonedx+json", "application/spdx+json", "application/vnd.syft+json"][i % 3])))])
}
/// documents whose arrays / tables hold `n` elements: (type, document)
fn big_docs(n: usize) -> Vec<(&'static str, Value)> {
    let wide = |n: usize| { let mut t = toml::Table::new(); for i in 0..n { t.insert(format!("key-{i:05}"), if i % 3 == 0 { Value::Integer(i as i64) } else { s(&format!("v{i}")) }); } Value::Table(t) };
    let deep = |d: usize| { let mut v = tbl(vec![("leaf", Value::Integer(1))]); for i in 0..d { v = if i % 4 == 3 { tbl(vec![("list", Value::Array(vec![v, Value::Integer(i as i64)]))]) } else { tbl(vec![("t", v)]) }; } v };
    let launch = tbl(vec![
        ("processes", arr(n, |i| tbl(vec![("type", s(&format!("p{i}"))), ("command", arr(1 + i % 3, |j| s(&format!("c{j}")))), ("args", arr(i % 4, |j| s(&format!("a{j}")))), ("default", Value::Boolean(i + 1 == n))]))),
        ("labels", arr(n, |i| tbl(vec![("key", s(&format!("k{i}"))), ("value", s(&format!("v{i}")))]))),
        ("slices", arr(n, |i| tbl(vec![("paths", arr(1 + i % 2, |j| s(&format!("dir{i}/{j}/**"))))]))),
    ]);
    let plan = tbl(vec![("entries", arr(n, |i| if i % 5 == 4 { tbl(vec![("name", s(&format!("e{i}")))]) } else { tbl(vec![("name", s(&format!("e{i}"))), ("metadata", tbl(vec![("version", s(&format!("{i}.0"))), ("n", Value::Integer(i as i64))]))]) }))]);
    let composite = tbl(vec![("api", s("0.10")), ("buildpack", bp_table("big/meta", 2)),
        ("order", Value::Array((0..n).map(|i| tbl(vec![("group", arr(if i == 0 { n } else { 1 + i % 3 }, |j| tbl(vec![("id", s(&format!("g/{i}-{j}"))), ("version", s(&format!("{i}.{j}.0"))), ("optional", Value::Boolean(j % 2 == 1))])))])).collect()))]);
    let component = tbl(vec![("api", s("0.10")), ("buildpack", bp_table("big/component", n)),
        ("targets", arr(n, |i| tbl(vec![("os", s("linux")), ("arch", s(["amd64", "arm64"][i % 2])), ("distros", arr(if i == 0 { n } else { i % 3 }, |j| tbl(vec![("name", s("ubuntu")), ("version", s(&format!("{j}.04")))])))]))),
        ("stacks", arr(n, |i| tbl(vec![("id", s(&format!("stack-{i}"))), ("mixins", arr(i % 3, |j| s(&format!("m{j}"))))]))),
        ("metadata", wide(n))]);
    let package = tbl(vec![("buildpack", tbl(vec![("uri", s("."))])), ("dependencies", arr(n, |i| tbl(vec![("uri", s(&format!("libcnb:dep/number-{i}")))])))]);
    let store = tbl(vec![("metadata", tbl(vec![("wide", wide(n)), ("deep", deep(n.min(40)))]))]);
    let layer = tbl(vec![("types", tbl(vec![("launch", Value::Boolean(true))])), ("metadata", tbl(vec![("wide", wide(n)), ("list", arr(n, |i| Value::Integer(i as i64)))]))]);
    vec![("Launch", launch), ("BuildpackPlan", plan), ("CompositeBuildpackDescriptor", composite.clone()), ("BuildpackDescriptor", composite), ("ComponentBuildpackDescriptor", component.clone()),
        ("BuildpackDescriptor", component), ("PackageDescriptor", package), ("Store", store), ("LayerContentMetadata", layer)]
}
/// single-point mutations inside the first, the middle and the last element of every array of tables that holds `n` elements
fn big_mutations(doc: &Value, n: usize) -> Vec<(String, Value)> {
    let mut out = vec![];
    let mut all = vec![];
    nodes(doc, &mut vec![], &mut all);
    for p in all.iter().filter(|p| !in_free_form(p)) {
        let Value::Array(a) = get(doc, p) else { continue };
        if a.len() != n { continue; }
        // large documents: the last element only
        for i in if n >= 200 { vec![n - 1] } else { vec![0, n / 2, n - 1] } {
            let mut q = p.clone(); q.push(Seg::Idx(i));
            match &a[i] {
                Value::Table(t) => {
                    let mut d = doc.clone(); at(&mut d, &q).as_table_mut().unwrap().insert("zz-undefined".into(), s("x")); out.push(("big:unknown-key".into(), d));
                    // one key of the element (a different one at each position) deleted and retyped
                    let keys: Vec<&String> = t.keys().collect();
                    if let Some(k) = keys.get(i % keys.len().max(1)) {
                        let mut d = doc.clone(); at(&mut d, &q).as_table_mut().unwrap().remove(*k); out.push(("big:delete-key".into(), d));
                        let mut d = doc.clone(); at(&mut d, &q).as_table_mut().unwrap().insert((*k).clone(), if t[*k].is_integer() { s("7") } else { Value::Integer(7) }); out.push(("big:retype".into(), d));
                    }
                }
                _ => { let mut d = doc.clone(); *at(&mut d, &q) = if a[i].is_integer() { s("7") } else { Value::Integer(7) }; out.push(("big:retype".into(), d)); }
            }
        }
    }
    out
}

fn generate(tier: &str, seed: u64, emit: &mut dyn FnMut(Case)) {
    let thorough = tier == "thorough";
    let bases: Vec<(&str, &str)> = vec![
        ("BuildpackDescriptor", COMPONENT), ("BuildpackDescriptor", COMPOSITE),
        ("ComponentBuildpackDescriptor", COMPONENT), ("CompositeBuildpackDescriptor", COMPOSITE),
        ("ComponentBuildpackDescriptor", COMPOSITE), ("CompositeBuildpackDescriptor", COMPONENT),
        ("BuildpackPlan", PLAN), ("Launch", LAUNCH), ("LayerContentMetadata", LAYER), ("Store", STORE), ("PackageDescriptor", PACKAGE),
        ("BuildpackTarget", TARGET), ("BuildpackPlan", ""), ("Launch", ""), ("LayerContentMetadata", ""), ("Store", "[metadata]\n"),
    ];
    let mut idx = 0u64;
    // layouts draw from their own stream so that the families above keep their cases whatever is added here
    let mut lidx = 0u64;
    let mut layout_rng = |seed: u64| { lidx += 1; Rng::for_case(seed ^ 0x1A70_C08, lidx) };
    for (ty, text) in &bases {
        let doc: Value = Value::Table(toml::from_str::<toml::Table>(text).unwrap());
        emit(case(ty, &doc, "base", false));
        // (a) every single-point mutation of the maximal document, with the directed families (rich)
        let first = mutations_x(ty, &doc, true, thorough);
        for (k, d) in &first { emit(case(ty, d, k, true)); }
        // (b) all optional-key subsets, table by table
        let subs = key_subsets(&doc);
        for d in &subs { emit(case(ty, d, "key-subset", true)); }
        // (c) every single-point mutation of some (quick) / many (thorough) of the subset documents
        let pick = if thorough { 120 } else { 10 };
        for j in 0..pick.min(subs.len()) {
            idx += 1;
            let mut r = Rng::for_case(seed, idx);
            let d = &subs[r.below(subs.len() as u64) as usize];
            let _ = j;
            for (k, m) in mutations(ty, d) { emit(case(ty, &m, &format!("{k}+subset"), true)); }
        }
        // (d) thorough: two-point mutations (a mutation of a mutation), sampled
        if thorough {
            let first = mutations(ty, &doc);
            for j in 0..400.min(first.len()) {
                idx += 1;
                let mut r = Rng::for_case(seed, idx);
                let (k1, d1) = &first[r.below(first.len() as u64) as usize];
                let second = mutations(ty, d1);
                if second.is_empty() { continue; }
                let _ = j;
                for _ in 0..8 { let (k2, d2) = &second[r.below(second.len() as u64) as usize]; emit(case(ty, d2, &format!("two-point:{k1}&{k2}"), true)); }
            }
        }
        // (e) the same logical documents in other TOML layouts (third field = the text): the base document in every directed
        //     style (one feature each) and in seeded random styles; every key-subset document and every single-point mutation
        //     (rich ones included) in 1 (quick) / 4 (thorough) random styles
        for k in 0..Style::N_DIRECTED { let st = Style::directed(k); let mut r = layout_rng(seed); emit(case_layout(ty, &doc, "layout:base", &st, &st.tag(), &mut r)); }
        for _ in 0..(if thorough { 300 } else { 40 }) { let mut r = layout_rng(seed); let st = Style::random(&mut r); emit(case_layout(ty, &doc, "layout:base", &st, "random", &mut r)); }
        let reps = if thorough { 4 } else { 1 };
        for d in &subs { for _ in 0..reps { let mut r = layout_rng(seed); let st = Style::random(&mut r); emit(case_layout(ty, d, "layout:key-subset", &st, "random", &mut r)); } }
        for (k, d) in &first {
            // value pools are about the value, not the layout: one in four of them is enough here
            //   (likewise the added retypes; undefined keys in other spellings: one in two)
            let keep = if k.starts_with("value-pool") || k.starts_with("retype-more") { 4 } else if k.starts_with("unknown-key-variant") { 2 } else { 1 };
            for _ in 0..reps { let mut r = layout_rng(seed); if !r.chance(1, keep) { continue; } let st = Style::random(&mut r); emit(case_layout(ty, d, &format!("layout:{k}"), &st, "random", &mut r)); }
        }
    }
    // (f) big documents: arrays of n processes / labels / slices / plan entries / order groups / targets / distros / stacks / keywords /
    //     licenses / dependencies and metadata tables n keys wide (and up to 40 levels deep), n straddling 16, 20, 32, 64, 128, 256
    //     (thorough: 512, 1000, 1024); the valid document (toml crate's spelling and two layouts) and single-point mutations inside
    //     the first, middle and last element of every n-element array
    let mut sizes: Vec<usize> = vec![16, 17, 20, 21, 32, 33, 64, 65, 128, 129, 256, 257];
    let mutate_at: &[usize] = if thorough { &[16, 17, 20, 21, 32, 33, 64, 65, 128, 129, 256, 257, 513, 1025] } else { &[17, 33, 65, 257] };
    if thorough { sizes.extend([512, 513, 1000, 1024, 1025]); }
    for n in sizes {
        for (ty, doc) in big_docs(n) {
            let mut c = case(ty, &doc, "big:valid", true); c.tags.push(("n".into(), n.to_string())); emit(c);
            for k in if n >= 128 { vec![1usize] } else { vec![1usize, 3] } { let st = Style::directed(k); let mut r = layout_rng(seed); let mut c = case_layout(ty, &doc, "big:valid-layout", &st, &st.tag(), &mut r); c.tags.push(("n".into(), n.to_string())); emit(c); }
            { let mut r = layout_rng(seed); let st = Style::random(&mut r); let mut c = case_layout(ty, &doc, "big:valid-layout", &st, "random", &mut r); c.tags.push(("n".into(), n.to_string())); emit(c); }
            // mutations at 17, 33, 65, 257 only (quick) - the documents are large and every identifier in them compiles a regex
            if mutate_at.contains(&n) { for (k, d) in big_mutations(&doc, n) { let mut c = case(ty, &d, &k, true); c.tags.push(("n".into(), n.to_string())); emit(c); } }
        }
    }
}

fn main() { main_loop_jobs("c08", 8, &generate, &run_case); }
