//! C03 correspondence: real `LayerEnv::write_to_layer_dir` / `read_from_layer_dir` on generated environments.
use cnbv::*;
use libcnb::Env;
use libcnb::layer_env::{LayerEnv, ModificationBehavior, Scope};
use std::ffi::OsString;
use std::os::unix::ffi::{OsStrExt, OsStringExt};
use std::path::Path;

fn os(b: &[u8]) -> OsString { OsString::from_vec(b.to_vec()) }
fn parse_scope(s: &str) -> Scope {
    match s { "A" => Scope::All, "B" => Scope::Build, "L" => Scope::Launch,
        _ => Scope::Process(String::from_utf8(unhex(s.strip_prefix("P:").unwrap()).unwrap()).unwrap()) }
}
fn parse_beh(s: &str) -> ModificationBehavior {
    match s { "a" => ModificationBehavior::Append, "d" => ModificationBehavior::Default, "m" => ModificationBehavior::Delimiter,
        "o" => ModificationBehavior::Override, "p" => ModificationBehavior::Prepend, _ => panic!("beh") }
}
fn render_env(env: &Env) -> String {
    let mut v: Vec<(Vec<u8>, Vec<u8>)> = env.iter().map(|(k, v)| (k.as_bytes().to_vec(), v.as_bytes().to_vec())).collect();
    v.sort();
    join(",", &v.iter().map(|(k, v)| format!("{}={}", hex(k), hex(v))).collect::<Vec<_>>())
}
type Ins = (String, String, Vec<u8>, Vec<u8>);
fn parse_ins(s: &str) -> Vec<Ins> {
    split_list(s, ",").iter().map(|i| { let p: Vec<&str> = i.split('/').collect(); (p[0].to_string(), p[1].to_string(), unhex(p[2]).unwrap(), unhex(p[3]).unwrap()) }).collect()
}
fn build(ins: &[Ins]) -> LayerEnv {
    let mut le = LayerEnv::new();
    for (s, b, n, v) in ins { le.insert(parse_scope(s), parse_beh(b), os(n), os(v)); }
    le
}

/// mode-less snapshot: sorted lines `D a/b`, `F a/b content`, `L a/b` with hex components
fn snap(root: &Path) -> String {
    fn walk(dir: &Path, pre: &str, out: &mut Vec<String>) {
        for e in std::fs::read_dir(dir).unwrap() {
            let e = e.unwrap();
            let name = hex(e.file_name().as_bytes());
            let p = if pre.is_empty() { name } else { format!("{pre}/{name}") };
            let ft = e.file_type().unwrap();
            if ft.is_symlink() { out.push(format!("L {p}")); }
            else if ft.is_dir() { out.push(format!("D {p}")); walk(&e.path(), &p, out); }
            else { out.push(format!("F {p} {}", hex(&std::fs::read(e.path()).unwrap()))); }
        }
    }
    let mut out = vec![];
    walk(root, "", &mut out);
    out.sort();
    join(",", &out)
}

const PROBE_SCOPES: &[&str] = &["A", "B", "L", "P:776562", "P:776f726b6572", "P:6275696c64", "P:6c61756e6368"];
fn probes(le: &LayerEnv, names: &[Vec<u8>], layer: &Path) -> String {
    let mut dn: Vec<Vec<u8>> = vec![];
    for n in names { if !dn.contains(n) { dn.push(n.clone()); } }
    let mut e1 = Env::new();
    for n in &dn { e1.insert(os(n), os(b"0")); }
    let envs = [Env::new(), e1];
    let lp = layer.as_os_str().as_bytes();
    let mut parts = vec![];
    for sc in PROBE_SCOPES { for (i, e) in envs.iter().enumerate() {
        let out = le.apply(parse_scope(sc), e);
        // canonicalise the layer path inside values to $L
        let mut v: Vec<(Vec<u8>, Vec<u8>)> = out.iter().map(|(k, v)| (k.as_bytes().to_vec(), replace(v.as_bytes(), lp, b"$L"))).collect();
        v.sort();
        parts.push(format!("{sc}>{i}>{}", join(",", &v.iter().map(|(k, v)| format!("{}={}", hex(k), hex(v))).collect::<Vec<_>>())));
    } }
    let _ = render_env;
    parts.join("|")
}
fn replace(h: &[u8], from: &[u8], to: &[u8]) -> Vec<u8> {
    let mut out = vec![]; let mut i = 0;
    while i < h.len() { if h[i..].starts_with(from) { out.extend_from_slice(to); i += from.len(); } else { out.push(h[i]); i += 1; } }
    out
}

fn run_case(f: &[String]) -> String {
    let tmp = tempfile::tempdir().unwrap();
    let layer = tmp.path().join("layer");
    std::fs::create_dir(&layer).unwrap();
    match f[0].as_str() {
        "W" => {
            let old = parse_ins(&f[1]); let new = parse_ins(&f[2]);
            for x in split_list(&f[3], ",") { let (k, v) = x.split_once('=').unwrap(); let p = layer.join(os(&unhex(k).unwrap()));
                // `@` = an unrelated directory (empty, or `@child:content` holding one file)
                if let Some(rest) = v.strip_prefix('@') { std::fs::create_dir(&p).unwrap(); if let Some((c, b)) = rest.split_once(':') { std::fs::write(p.join(os(&unhex(c).unwrap())), unhex(b).unwrap()).unwrap(); } }
                else { std::fs::write(p, unhex(v).unwrap()).unwrap(); } }
            let names: Vec<Vec<u8>> = split_list(&f[4], ",").iter().map(|n| unhex(n).unwrap()).collect();
            if build(&old).write_to_layer_dir(&layer).is_err() { return "err:io".into(); }
            if build(&new).write_to_layer_dir(&layer).is_err() { return "err:io".into(); }
            let s = snap(&layer);
            match LayerEnv::read_from_layer_dir(&layer) {
                Ok(le) => format!("snap={s};probes={}", probes(&le, &names, &layer)),
                Err(_) => format!("snap={s};probes=err:io"),
            }
        }
        "R" => {
            for d in split_list(&f[1], ",") {
                let (sc, files) = d.split_once('~').unwrap();
                let dir = match sc { "A" => layer.join("env"), "B" => layer.join("env.build"), "L" => layer.join("env.launch"),
                    _ => layer.join("env.launch").join(os(&unhex(sc.strip_prefix("P:").unwrap()).unwrap())) };
                std::fs::create_dir_all(&dir).unwrap();
                for x in split_list(files, "+") { let (k, v) = x.split_once('=').unwrap(); std::fs::write(dir.join(os(&unhex(k).unwrap())), unhex(v).unwrap()).unwrap(); }
            }
            let names: Vec<Vec<u8>> = split_list(&f[2], ",").iter().map(|n| unhex(n).unwrap()).collect();
            match LayerEnv::read_from_layer_dir(&layer) {
                Ok(le) => format!("probes={}", probes(&le, &names, &layer)),
                Err(_) => "probes=err:io".into(),
            }
        }
        _ => "bad-case".into(),
    }
}

const NAMES: &[&[u8]] = &[b"A", b"B", b"PATH", b"A.b", b".hid", b"a.", b"\xffz", b"A.append", b"x y", b"..", b"A.b.c"];
const VALS: &[&[u8]] = &[b"", b"x", b"y\n", b"/bin:/usr/bin", b"\xfe\x00", b":"];
const SCOPES: &[&str] = &["A", "B", "L", "P:776562", "P:776f726b6572", "P:6275696c64"];
const BEHS: &[&str] = &["a", "d", "m", "o", "p"];
const EXTRAS: &[&[u8]] = &[b"data.txt", b"env.other", b"envx", b"launch.toml", b".keep"];
// unrelated *directories* of the layer, named like / near the env directories (never bin/lib/include/pkgconfig: those are C10's)
const EXTRA_DIRS: &[&[u8]] = &[b"env.d", b"env.local", b"env.bak", b"env.launch.old", b"env.build.d", b"envs", b".env", b"conf", b"env.launch2", b"ENV", b"env.LAUNCH", b"env.build~", b"exec.d", b"env.sh.d"];

fn ins_str(ins: &[Ins]) -> String { join(",", &ins.iter().map(|(s, b, n, v)| format!("{s}/{b}/{}/{}", hex(n), hex(v))).collect::<Vec<_>>()) }

fn gen_ins(r: &mut Rng, with_proc: bool) -> Vec<Ins> {
    let k = r.below(7);
    let nscopes = if with_proc { 5 } else { 3 };
    (0..k).map(|_| (SCOPES[r.below(nscopes) as usize].to_string(), r.pick(BEHS).to_string(), r.pick(NAMES).to_vec(), r.pick(VALS).to_vec())).collect()
}

fn generate(tier: &str, seed: u64, emit: &mut dyn FnMut(Case)) {
    let mk_w = |old: &[Ins], new: &[Ins], extras: &[(Vec<u8>, Vec<u8>)], kind: &str| {
        let mut names: Vec<Vec<u8>> = new.iter().chain(old.iter()).map(|i| i.2.clone()).collect();
        names.push(b"UNRELATED".to_vec());
        let has_proc = new.iter().any(|i| i.0.starts_with("P:"));
        Case { fields: vec!["W".into(), ins_str(old), ins_str(new), join(",", &extras.iter().map(|(k, v)| if let Some(r) = v.strip_prefix(b"@DIR") { if r.is_empty() { format!("{}=@", hex(k)) } else { format!("{}=@{}:{}", hex(k), hex(b"child.conf"), hex(r)) } } else { format!("{}={}", hex(k), hex(v)) }).collect::<Vec<_>>()), join(",", &names.iter().map(|n| hex(n)).collect::<Vec<_>>())],
            tags: vec![("kind".into(), kind.into()), ("proc".into(), u8::from(has_proc).to_string()), ("n_new".into(), new.len().to_string()), ("n_old".into(), old.len().to_string())],
            nontrivial: !old.is_empty() && !new.is_empty() }
    };
    // exhaustive: single entries for every scope x behaviour x 3 names, over an old env with every scope populated
    let old_full: Vec<Ins> = SCOPES.iter().map(|s| (s.to_string(), "o".to_string(), b"OLD".to_vec(), b"1".to_vec())).collect();
    for s in SCOPES { for b in BEHS { for n in [&b"A"[..], b"A.b", b".hid"] {
        let new = vec![(s.to_string(), b.to_string(), n.to_vec(), b"v".to_vec())];
        emit(mk_w(&old_full, &new, &[(b"data.txt".to_vec(), b"d".to_vec())], "exh1"));
        emit(mk_w(&[], &new, &[], "exh1"));
    } } }
    // every unrelated directory name beside a write into every scope (and an empty new env)
    for x in EXTRA_DIRS { for s in SCOPES {
        let new = vec![(s.to_string(), "o".to_string(), b"A".to_vec(), b"v".to_vec())];
        emit(mk_w(&old_full, &new, &[(x.to_vec(), b"@DIRk=v".to_vec()), (b"data.txt".to_vec(), b"d".to_vec())], "exh-extradirs"));
        emit(mk_w(&new, &[], &[(x.to_vec(), b"@DIR".to_vec())], "exh-extradirs"));
    } }
    // pairs of entries on one name (all behaviour pairs, scope pairs)
    if tier == "thorough" {
        for s1 in SCOPES { for s2 in SCOPES { for b1 in BEHS { for b2 in BEHS {
            let new = vec![(s1.to_string(), b1.to_string(), b"A".to_vec(), b"1".to_vec()), (s2.to_string(), b2.to_string(), b"A".to_vec(), b"2".to_vec())];
            emit(mk_w(&old_full, &new, &[], "exh2"));
        } } } }
    }
    let samples = if tier == "thorough" { 100_000 } else { 5_000 };
    for idx in 0..samples {
        let mut r = Rng::for_case(seed, idx);
        let with_proc = r.chance(1, 2);
        let oldp = r.chance(1, 2); let old = gen_ins(&mut r, oldp);
        let new = gen_ins(&mut r, with_proc);
        let mut extras = vec![];
        for x in EXTRAS { if r.chance(1, 4) { extras.push((x.to_vec(), r.pick(VALS).to_vec())); } }
        for x in EXTRA_DIRS { if r.chance(1, 8) { extras.push((x.to_vec(), if r.chance(1, 3) { b"@DIR".to_vec() } else { b"@DIRk=v".to_vec() })); } }
        emit(mk_w(&old, &new, &extras, "rndW"));
        // correlated pairs: the new env is the old one with some entries dropped / changed / added, so that whole scopes
        // are byte-identical between the two writes while others shrink or vanish
        if idx % 2 == 0 && !old.is_empty() {
            let mut new2: Vec<Ins> = vec![];
            let drop_scope = *r.pick(SCOPES);
            for i in &old { if i.0 == drop_scope && r.chance(3, 4) { continue; } if r.chance(1, 8) { continue; } let mut j = i.clone(); if r.chance(1, 8) { j.3 = r.pick(VALS).to_vec(); } new2.push(j); }
            if r.chance(1, 4) { new2.extend(gen_ins(&mut r, true).into_iter().take(1)); }
            emit(mk_w(&old, &new2, &extras, "corrW"));
        }
    }
    // every way of dropping one scope from an env that populates all scopes (identical remaining scopes)
    {
        let full: Vec<Ins> = SCOPES.iter().flat_map(|s| vec![(s.to_string(), "o".to_string(), b"K".to_vec(), b"1".to_vec()), (s.to_string(), "a".to_string(), b"K".to_vec(), b"2".to_vec())]).collect();
        for mask in 0u32..(1 << SCOPES.len()) {
            let new: Vec<Ins> = full.iter().filter(|i| { let k = SCOPES.iter().position(|s| *s == i.0).unwrap(); mask & (1 << k) != 0 }).cloned().collect();
            emit(mk_w(&full, &new, &[], "exh-dropscopes"));
        }
    }
    // big environments: many variables in one scope (directory listings / maps / sorts beyond the small sizes above); the old
    // environment is a same-sized one on other names, an overlapping one, or the same one
    {
        let sizes: &[usize] = if tier == "thorough" { &[16, 17, 21, 32, 33, 40, 64, 65, 100, 128, 129, 200, 257] } else { &[17, 33, 65, 129] };
        let mut bi = 0u64;
        for &nv in sizes { for sc in ["A", "B", "L", "P:776562"] { for variant in 0..3 {
            bi += 1;
            let mut r = Rng::for_case(seed ^ 0xb19, bi);
            let mk = |r: &mut Rng, pfx: &str, nv: usize| -> Vec<Ins> {
                let mut v: Vec<Ins> = vec![];
                for i in 0..nv { let nb = 1 + r.below(3) as usize; let mut bs: Vec<&str> = BEHS.to_vec(); r.shuffle(&mut bs);
                    for b in bs.into_iter().take(nb) { let val: Vec<u8> = if b == "m" { b":".to_vec() } else { format!("{b}{i}").into_bytes() }; v.push((sc.to_string(), b.to_string(), format!("{pfx}{i:03}").into_bytes(), val)); } }
                r.shuffle(&mut v); v
            };
            let new = mk(&mut r, "V", nv);
            let old: Vec<Ins> = match variant { 0 => mk(&mut r, "W", nv), 1 => { let mut o = new.clone(); o.truncate(new.len() / 2); o.extend(mk(&mut r, "W", nv / 2)); o }, _ => new.clone() };
            let mut c = mk_w(&old, &new, &[], "bigW");
            c.nontrivial = true;
            emit(c);
        } } }
    }
    // read side: spec-shaped env directories with arbitrary file names (no two files designating one key)
    let fnames: &[&[u8]] = &[b"A", b"A.append", b"A.default", b"A.delim", b"A.prepend", b"B.override", b"C.unknown", b"D.", b".E", b".E.append", b"F.b.append", b"G.APPEND", b"H.append.bak", b"\xffI.prepend", b"J.\xff", b"K K", b"L.override.override"];
    let rsamples = if tier == "thorough" { 30_000 } else { 2_000 };
    for idx in 0..rsamples {
        let mut r = Rng::for_case(seed ^ 0x5151, idx);
        let mut dirs = vec![];
        let mut names: Vec<Vec<u8>> = vec![b"A".to_vec(), b"UNRELATED".to_vec()];
        let with_proc = r.chance(1, 3);
        let mut any_proc = false;
        for sc in SCOPES { 
            if sc.starts_with("P:") && !with_proc { continue; }
            if r.chance(1, 2) { continue; }
            if sc.starts_with("P:") { any_proc = true; }
            let mut files: Vec<String> = vec![];
            let mut used: Vec<&[u8]> = vec![];
            let k = r.below(6);
            for _ in 0..k { let f = *r.pick(fnames);
                // avoid two files for one (behaviour, name): "A" and "A.override"-like pairs are not in the pool except L.override.override
                if used.contains(&f) { continue; } used.push(f);
                let v: &[u8] = *r.pick(VALS); files.push(format!("{}={}", hex(f), hex(v)));
                let stem: Vec<u8> = f.split(|c| *c == b'.').next().unwrap().to_vec(); if !stem.is_empty() { names.push(stem); }
                names.push(f.to_vec());
            }
            dirs.push(format!("{sc}~{}", join("+", &files)));
        }
        names.push(b".E".to_vec()); names.push(b"F.b".to_vec()); names.push(b"L.override".to_vec()); names.push(b"H.append".to_vec());
        emit(Case { fields: vec!["R".into(), join(",", &dirs), join(",", &names.iter().map(|n| hex(n)).collect::<Vec<_>>())],
            tags: vec![("kind".into(), "rndR".into()), ("proc".into(), u8::from(any_proc).to_string())], nontrivial: !dirs.is_empty() });
    }
}

fn main() { main_loop_jobs("c03", 8, &generate, &run_case); }
