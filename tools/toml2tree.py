#!/usr/bin/env python3
"""usage: toml2tree.py <dir>

Independent TOML reader for the correspondence harness (C07, C14): parses every regular file of <dir> (sorted by name)
with Python's `tomllib` — not the Rust `toml` crate — and prints one line per file:

    <file name> \t <value tree in the prefix encoding of lean/CnbVerif/Base/TomlWire.lean>
    <file name> \t invalid-toml        (tomllib rejects the text: it is not TOML 1.0)
    <file name> \t invalid-utf8

Prefix encoding: T<n> (K<hex key> value)*n | A<n> value*n | S<hex utf-8> | I<int> | B0|B1 | F<hex ieee-754 bits> |
D<hex canonical text>, tokens separated by one space, table entries sorted by key (code points).
"""
import datetime, os, struct, sys, tomllib


def hx(s):
    return s.encode("utf-8").hex()


def frac(us):
    return ("." + ("%06d" % us).rstrip("0")) if us else ""


def dt_text(v):
    if isinstance(v, datetime.datetime):
        s = "%04d-%02d-%02dT%02d:%02d:%02d%s" % (v.year, v.month, v.day, v.hour, v.minute, v.second, frac(v.microsecond))
        off = v.utcoffset()
        if off is not None:
            m = int(off.total_seconds()) // 60
            s += "Z" if m == 0 else "%s%02d:%02d" % ("+" if m > 0 else "-", abs(m) // 60, abs(m) % 60)
        return s
    if isinstance(v, datetime.date):
        return "%04d-%02d-%02d" % (v.year, v.month, v.day)
    return "%02d:%02d:%02d%s" % (v.hour, v.minute, v.second, frac(v.microsecond))


def wire(v, out):
    if isinstance(v, bool):
        out.append("B1" if v else "B0")
    elif isinstance(v, str):
        out.append("S" + hx(v))
    elif isinstance(v, int):
        out.append("I%d" % v)
    elif isinstance(v, float):
        out.append("F" + struct.pack(">d", v).hex())
    elif isinstance(v, (datetime.datetime, datetime.date, datetime.time)):
        out.append("D" + hx(dt_text(v)))
    elif isinstance(v, list):
        out.append("A%d" % len(v))
        for x in v:
            wire(x, out)
    elif isinstance(v, dict):
        out.append("T%d" % len(v))
        for k in sorted(v):
            out.append("K" + hx(k))
            wire(v[k], out)
    else:
        raise TypeError(type(v))


def main():
    d = sys.argv[1]
    for name in sorted(os.listdir(d)):
        p = os.path.join(d, name)
        if not os.path.isfile(p):
            continue
        raw = open(p, "rb").read()
        try:
            text = raw.decode("utf-8")
        except UnicodeDecodeError:
            print(name + "\tinvalid-utf8")
            continue
        try:
            doc = tomllib.loads(text)
        except tomllib.TOMLDecodeError:
            print(name + "\tinvalid-toml")
            continue
        out = []
        wire(doc, out)
        print(name + "\t" + " ".join(out))


if __name__ == "__main__":
    main()
