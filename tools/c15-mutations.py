# C15 mutation self-tests: tools/with-mutation -e "python3 tools/c15-mutations.py <name>" -- ./check C15   (expects exit 1 + VIOLATION)
# names: rewrite-descriptor detect-wrong-link print-all drop-additional first-bin composite-not-normalised select-all-from-buildpack-dir release-into-debug additional-as-main no-package-toml root-precedence
# (skip-wipe: -e "sed -i 's|let _ = fs::remove_dir_all(&buildpack_destination_dir);|// wipe skipped|' /repo/libcnb-cargo/src/package/command.rs")
import sys
name=sys.argv[1]
def rep(path, old, new, count=1):
    s=open(path).read()
    assert old in s, (name, 'pattern not found', old)
    s=s.replace(old,new,count)
    open(path,'w').write(s)
LIB='/repo/libcnb-package/src/lib.rs'; CMD='/repo/libcnb-cargo/src/package/command.rs'; CARGO='/repo/libcnb-package/src/cargo.rs'; PKG='/repo/libcnb-package/src/package.rs'; OUT='/repo/libcnb-package/src/output.rs'; BUILD='/repo/libcnb-package/src/build.rs'
if name=='rewrite-descriptor':
    rep(LIB,'''    fs::copy(
        buildpack_descriptor_path.as_ref(),
        destination_path.as_ref().join("buildpack.toml"),
    )?;''','''    fs::write(
        destination_path.as_ref().join("buildpack.toml"),
        fs::read_to_string(buildpack_descriptor_path.as_ref())?.trim_end(),
    )?;''')
elif name=='detect-wrong-link':
    rep(LIB,'create_file_symlink("build", bin_path.join("detect"))?;','create_file_symlink("detect", bin_path.join("detect"))?;')
elif name=='print-all':
    rep(CMD,'.filter(|(id, _)| root_nodes.iter().any(|node| node.buildpack_id == **id))','.filter(|(id, _)| root_nodes.iter().any(|node| node.buildpack_id == **id) || true)')
elif name=='drop-additional':
    rep(LIB,'if !buildpack_binaries.additional_target_binary_paths.is_empty() {','if false && !buildpack_binaries.additional_target_binary_paths.is_empty() {')
elif name=='first-bin':
    rep(CARGO,'''            .then_some(root_package.name.clone())
            .ok_or(DetermineBuildpackCargoTargetNameError::AmbiguousBinTargets),''','''            .then_some(root_package.name.clone())
            .or_else(|| binary_target_names.first().cloned())
            .ok_or(DetermineBuildpackCargoTargetNameError::AmbiguousBinTargets),''')
elif name=='composite-not-normalised':
    rep(PKG,'''    write_toml_file(
        &normalized_package_descriptor,
        destination.join("package.toml"),
    )
    .map_err(PackageCompositeBuildpackError::CouldNotWritePackageDescriptor)''','''    let _ = &normalized_package_descriptor;
    fs::copy(&package_descriptor_path, destination.join("package.toml"))
        .map(|_| ())
        .map_err(PackageCompositeBuildpackError::CouldNotCopyBuildpackToml)''')
elif name=='select-all-from-buildpack-dir':
    rep(CMD,'.map(|node| vec![node])','.map(|_| buildpack_dependency_graph.node_weights().collect::<Vec<_>>())')
elif name=='release-into-debug':
    rep(OUT,'CargoProfile::Release => "release",','CargoProfile::Release => "debug",')
elif name=='additional-as-main':
    rep(LIB,'''        &buildpack_binaries.buildpack_target_binary_path,
        bin_path.join("build"),''','''        buildpack_binaries.additional_target_binary_paths.values().next().unwrap_or(&buildpack_binaries.buildpack_target_binary_path),
        bin_path.join("build"),''')
elif name=='no-package-toml':
    rep(PKG,'''    fs::write(
        destination.join("package.toml"),
        "[buildpack]\\nuri = \\".\\"\\n",
    )
    .map_err(PackageLibcnbBuildpackError::WritePackageDescriptor)''','''    Ok(())''')
elif name=='root-precedence':
    # workspace root wins over "the buildpack whose directory is the current directory" (differs when the root is itself a buildpack)
    rep(CMD,'''        .find(|node| node.path == current_dir)
        .map(|node| vec![node])
        .or_else(|| {
            current_dir.eq(&workspace_root_path).then(|| {
                buildpack_dependency_graph
                    .node_weights()
                    .collect::<Vec<_>>()
            })
        })
        .unwrap_or_default();''','''        .find(|node| node.path == current_dir && current_dir != workspace_root_path)
        .map(|node| vec![node])
        .or_else(|| {
            current_dir.eq(&workspace_root_path).then(|| {
                buildpack_dependency_graph
                    .node_weights()
                    .collect::<Vec<_>>()
            })
        })
        .unwrap_or_default();''')
else:
    raise SystemExit('unknown mutation')
