from propcfg.common import COMMON_ASSUME

CFG = {
    "bin": "c05",
    "extra_bins": ["tbp"],
    "technique": "Lean 4 proof (decision-table theorems over the abstract invocation, induction over the SBOM lists) + "
                 "differential correspondence against a real buildpack_main! executable",
    "level_text": "Theorems (all invocations: any argument count, API version, payloads, SBOM lists, pre-existing output state, and any "
                  "environment - every CNB_* variable unset, set to any text, or set to bytes that are not Unicode: the model's Vars carries "
                  "values, not presence bits): "
                  "detect pass+plan => exit 0 and the plan written with the buildpack's plan; pass => exit 0, plan untouched; fail => exit 100, "
                  "plan untouched; any detect-phase error => on_error exactly once, exit not in {0,100}; build without error => exit 0 and "
                  "launch.toml / store.toml / each build and launch SBOM file written exactly for the provided parts, all others untouched; "
                  "any build-phase error => on_error once, exit != 0; unsupported/malformed/missing API, wrong executable name, wrong argument "
                  "count or a missing mandatory variable => detect/build code never runs, exit not in {0,100}, nothing written; "
                  "mandatory_variable_missing / mandatory_variable_unset: if CNB_BUILDPACK_DIR or CNB_TARGET_OS / ARCH / DISTRO_NAME / DISTRO_VERSION "
                  "is not provided, then for EVERY value of every other variable no phase code runs, exit not in {0,100}, no output touched; "
                  "target_variable_missing_is_an_error: with the phase determined a missing target variable => on_error exactly once; "
                  "outcome_independent_of_values: forgetting all values (keeping which variables are provided) never changes the outcome; "
                  "on_error <= 1 always and = 0 when exit is 0 or 100. Partial: the theorems are about the model `runtime`; it is tied to libcnb_runtime by "
                  "Gen (exit codes, supported API, the list of env::var reads of context_target / read_buildpack_dir with the shape of each: "
                  "required `.map_err(..)?` / optional `.ok()` / defaulted; any other shape, e.g. a requirement conditional on another variable, "
                  "is TIE-BROKEN) and by running the real executable over the quantifier's product.",
    "level_note": "Partial (process runtime): process exit, env::args on non-UTF-8 argv, getcwd, the file system and the real lifecycle are "
                  "runtime behaviour, sampled not proved. The abstraction (abstract Invocation -> concrete directories, environment, "
                  "buildpack.toml text; observation of exit status / marker files / output files) is harness code (harness/src/bin/c05.rs, "
                  "tbp.rs). Trusted: Lean kernel; my reading of the property in Spec/RuntimeTable.lean (mandatory variables = buildpack dir, "
                  "target os/arch/distro name/version, each judged by itself: provided = set to Unicode text, any text; a value that is not "
                  "Unicode counts as missing; a missing target variable behind a determined phase must reach on_error exactly once, a missing "
                  "buildpack directory is the API gate - exit != 0 without on_error is accepted there; supported API 0.10); translator; harness. "
                  "Values are sampled from fixed lists (18 OS, 10 arch, 8 variant, 9 distro name, 9 distro version values incl. empty, "
                  "case/whitespace variants of `windows`, non-ASCII, non-UTF-8), not enumerated: a requirement that depends on a value outside "
                  "the lists is caught by the translator's shape check, not by the sampling.",
    "shrink": [],
    "rule": "environment values (field 3 = buildpack-dir kind + five target variables as unset / hex bytes + extra CNB_* variables): "
            "val1 = every value of every variable (18 OS + 9 arch + 7 variant + 8 distro name + 8 distro version) x every single variable unset "
            "(and none) x detect/build; val2 = 18 OS x 10 arch values, all set, other values rotating; bpdir = 9 ways of writing "
            "CNB_BUILDPACK_DIR (plain, space, non-ASCII, trailing slash, dot-dot, symlink, relative, empty = cwd, non-UTF-8) x every single "
            "variable unset x OS in {linux, windows} x detect/build, and x 8 buildpack.toml classes x 3 names x 2 argument counts; extra = 6 sets "
            "of CNB_* variables the runtime does not read x every single variable unset x {linux, windows}; valpairs = every pair of unset "
            "variables x 9 OS values (spellings of windows, linux, empty) [thorough: x every value of every non-OS variable with OS=windows, and "
            "valsets = all 64 sets of unset variables x 18 OS values x 2 pre-states]; valrnd = 1500 [thorough 20000] random environments "
            "(each variable unset 1 in 12, else drawn from its list) x random gates/behaviour/layout. "
            "quick: every gate value at every gate position (5 executable names x 13 buildpack.toml states x 0..4 arguments x 8 variable "
            "sets, later dimensions at a representative value, twice: passing and failing buildpack), context inputs (cwd x platform dir x "
            "buildpack plan x 8 variable sets x 3 names), executable layout (symlink to a neutrally named file / separate copy / one neutral real "
            "file with detect, build and the wrong name linked to it / real file bin/build with the others linked to it = packaged layout / "
            "real file bin/detect) x invocation (absolute, relative, ../bin/.. path, bare name through $PATH, exec of the real file with "
            "argv[0] set) x 4 names (detect, build, other, release; wrong names get the argument list of the phase their count fits); "
            "with all gates open the full product detect behaviour "
            "(6: pass, pass+plan normal/empty/other-shape, fail, error) x pre-existing plan (absent/file/dir) x optional variable x platform x "
            "descriptor validity, build behaviour (launch and store each absent / normal / EMPTY document / other shape, build and launch SBOM "
            "sets with normal, empty and binary data: 64 results + error + layer error) x launch.toml (3) x store.toml (4) x SBOM files (2x2; "
            "thorough 8x8), all 8x8 SBOM format sets with rotating data kinds x 4 pre-states, 600 random result lists (<= 8 items of 20 kinds: "
            "repeated launch/store = the builder replaces, repeated formats, blocked paths), target variables set to the empty string, 1200 "
            "random draws from the whole product. Every payload exists in three variants (normal / empty-minimal: BuildPlan::new(), "
            "Launch::default(), Store with empty metadata, SBOM without bytes / other shape) and the observation tells untouched (old content) "
            "from written-with-the-empty-document. thorough: additionally the literal product executable name (3) x argument count (5) x "
            "buildpack.toml class (8) x presence of each of the 6 CNB_* variables (64) x behaviour (6 / 18, payload variants rotating) x "
            "pre-existing outputs (none / all). "
            "non-trivial = all gates open (every mandatory variable set to Unicode text; the phase function is reached and the behaviour decides the outcome); distinct = distinct input line",
    "trusted_base": ["Spec/RuntimeTable.lean is my reading of the property text and of buildpack.md (argument counts, exit 100; `provided` = set to "
                     "Unicode text, judged per variable; missing CNB_BUILDPACK_DIR = API gate without an on_error requirement)",
                     "Gen.exit_* regenerated from libcnb/src/exit_code.rs, Gen.supportedApi from libcnb/src/lib.rs, Gen.contextTargetReads / "
                     "Gen.buildpackDirRead from libcnb/src/runtime.rs (translator part `runtime`: recognises exactly `env::var(N).map_err(Error::X)?`, "
                     "`.ok()`, `.unwrap_or..(literal)`; counts every env::var/var_os/vars mention in runtime.rs; anything else is TIE-BROKEN). "
                     "Environment reads outside runtime.rs (Platform::from_path, tracing) are not covered by the census",
                     "Driver/C05.lean decides text vs not-Unicode with core `String.fromUTF8?`; the buildpack directory's text is symbolic ($BP@kind)",
                     "harness/src/bin/tbp.rs (test buildpack) and c05.rs (materialisation of an abstract invocation, observation)"],
    "assumptions": COMMON_ASSUME + ["a write to a path fails iff a directory sits at that path (the only write failure exercised)",
                                    "argv is valid UTF-8 (env::args panics otherwise; not modelled)"],
}
