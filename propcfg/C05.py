from propcfg.common import COMMON_ASSUME

CFG = {
    "bin": "c05",
    "extra_bins": ["tbp"],
    "technique": "Lean 4 proof (decision-table theorems over the abstract invocation, induction over the SBOM lists) + "
                 "differential correspondence against a real buildpack_main! executable",
    "level_text": "Theorems (all invocations: any argument count, API version, payloads, SBOM lists, pre-existing output state): "
                  "detect pass+plan => exit 0 and the plan written with the buildpack's plan; pass => exit 0, plan untouched; fail => exit 100, "
                  "plan untouched; any detect-phase error => on_error exactly once, exit not in {0,100}; build without error => exit 0 and "
                  "launch.toml / store.toml / each build and launch SBOM file written exactly for the provided parts, all others untouched; "
                  "any build-phase error => on_error once, exit != 0; unsupported/malformed/missing API, wrong executable name, wrong argument "
                  "count or a missing mandatory variable => detect/build code never runs, exit != 0, nothing written; on_error <= 1 always and "
                  "= 0 when exit is 0 or 100. Partial: the theorems are about the model `runtime`; it is tied to libcnb_runtime by "
                  "Gen (exit codes, supported API) and by running the real executable over the quantifier's product.",
    "level_note": "Partial (process runtime): process exit, env::args on non-UTF-8 argv, getcwd, the file system and the real lifecycle are "
                  "runtime behaviour, sampled not proved. The abstraction (abstract Invocation -> concrete directories, environment, "
                  "buildpack.toml text; observation of exit status / marker files / output files) is harness code (harness/src/bin/c05.rs, "
                  "tbp.rs). Trusted: Lean kernel; my reading of the property in Spec/RuntimeTable.lean (mandatory variables = buildpack dir, "
                  "target os/arch/distro name/version; supported API 0.10); translator; harness.",
    "shrink": [],
    "rule": "quick: every gate value at every gate position (5 executable names x 13 buildpack.toml states x 0..4 arguments x 8 variable "
            "sets, later dimensions at a representative value, twice: passing and failing buildpack), context inputs (cwd x platform dir x "
            "buildpack plan x 8 variable sets x 3 names), executable layout (symlink to a neutrally named file / separate copy / one neutral real "
            "file with detect, build and the wrong name linked to it / real file bin/build with the others linked to it = packaged layout / "
            "real file bin/detect) x invocation (absolute, relative, ../bin/.. path, bare name through $PATH, exec of the real file with "
            "argv[0] set) x 4 names (detect, build, other, release; wrong names get the argument list of the phase their count fits); "
            "with all gates open the full product detect behaviour "
            "(6: pass, pass+plan normal/empty/other-shape, fail, error) x pre-existing plan (absent/file/dir) x optional variable x platform x "
            "descriptor validity, build behaviour (launch and store each absent / normal / EMPTY document / other shape, build and launch SBOM "
            "sets with normal, empty and binary data: 64 results + error + layer error) x launch.toml (3) x store.toml (4) x SBOM files (2x2; "
            "thorough 8x8), all 8x8 SBOM format sets with rotating data kinds x 4 pre-states, 600 random result lists (<= 8 items of 20 kinds: "
            "repeated launch/store = the builder replaces, repeated formats, blocked paths), target variables set to the empty string, 1200 "
            "random draws from the whole product. Every payload exists in three variants (normal / empty-minimal: BuildPlan::new(), "
            "Launch::default(), Store with empty metadata, SBOM without bytes / other shape) and the observation tells untouched (old content) "
            "from written-with-the-empty-document. thorough: additionally the literal product executable name (3) x argument count (5) x "
            "buildpack.toml class (8) x presence of each of the 6 CNB_* variables (64) x behaviour (6 / 18, payload variants rotating) x "
            "pre-existing outputs (none / all). "
            "non-trivial = all gates open (the phase function is reached and the behaviour decides the outcome); distinct = distinct input line",
    "trusted_base": ["Spec/RuntimeTable.lean is my reading of the property text and of buildpack.md (argument counts, exit 100)",
                     "Gen.exit_* regenerated from libcnb/src/exit_code.rs, Gen.supportedApi from libcnb/src/lib.rs",
                     "harness/src/bin/tbp.rs (test buildpack) and c05.rs (materialisation of an abstract invocation, observation)"],
    "assumptions": COMMON_ASSUME + ["a write to a path fails iff a directory sits at that path (the only write failure exercised)",
                                    "argv is valid UTF-8 (env::args panics otherwise; not modelled)"],
}
