from propcfg.common import COMMON_ASSUME

CFG = {
    "bin": "c12",
    "extra_bins": ["c12op", "tbp"],
    "technique": "Lean 4 proof about the program layer (layer/runtime operations as programs over std::fs calls; induction over "
                 "programs: only `tolerate` can catch, and only ENOENT) + fault enumeration as the tie to the code: an LD_PRELOAD "
                 "shim fails the k-th libc call beneath the temp prefix at every position of the real call list",
    "level_text": "Theorems, stated once for the program language (every program, every semantics of the primitives over any state "
                  "type, every fault position k and errno) and instantiated for the 24 modelled operations (struct-API cached_layer with constant callbacks and with callbacks that are functions of the data read from disk (handleLayerD: any invalid_metadata_action / restored_layer_action; cached-migrate = a real migration of the old metadata) / "
                  "uncached_layer, LayerRef::write_metadata/env/sboms/exec_d_programs, trait-API handle_layer create/update/keep/"
                  "recreate/migrate and tHandleD with existing_layer_strategy / update / migrate_incompatible_metadata as functions of the LayerData read back, LayerEnv::write_to_layer_dir, detect writing the build plan, build reading store.toml and writing "
                  "launch.toml/store.toml/SBOM files): fault_propagates — a fault at any call the fault-free run makes returns the "
                  "error, except ENOENT at a call inside `tolerate` (= default_on_not_found); success_only_fault_free — a run that "
                  "returns ok is the fault-free run (same result, same final state, same calls); hence Spec.Fault.FailureIsReported / "
                  "FailureReturnsError for every program; tolerate swallows only not-found; in every modelled operation a tolerant "
                  "call is a step of a best-effort delete (or the read of the optional store.toml); refinement of the "
                  "replace_layer_metadata / replace_layer_types / replace_layer_sboms programs to the C01 model functions "
                  "(LayerStore.replaceMeta / replaceTypes / replaceSboms) through an abstraction relation. "
                  "PARTIAL: the proof is about the program layer. That the Rust code lies inside this language (no swallowed error) "
                  "is what the fault enumeration samples: for every (operation, prepared state) pair and every position of the REAL "
                  "libc call list x {EIO, EACCES, ENOSPC} the real call must return Err (phase: exit != 0) or leave a directory "
                  "byte- and mode-identical to the fault-free one.",
    "level_note": "Partial. Proof = program layer only; the enumeration is the tie, not a proof about the Rust code. A read whose failure is turned into a legitimate value (unwrap_or_default: no metadata) and handed to a buildpack callback is visible to the spec oracle only if the callback's answer depends on that value; cached-migrate / t-migrate use such callbacks for every read that feeds a decision (typed and generic read of <layer>.toml, env files and process directories read back). With the constant callbacks of the other operations such a change shows only as a model disagreement. Reads that feed no callback and no write-back (the env read before Recreate / after the final re-read, the re-read of create_layer) stay masked: the directory is the same whatever they return, which the property allows. Outside the "
                  "quantifier: failing statx-based probes (Path::exists / is_dir), readdir, close; ENOENT at the best-effort deletes "
                  "(tagged enoent-at-delete, run to show where the tolerance sits, never judged); partial effects of a failed call "
                  "(the model leaves the state unchanged; the theorems allow any). Inputs libcnb keeps in a HashMap (exec.d programs, "
                  "per-process env) have up to three elements; their iteration order is made reproducible by answering the child's "
                  "getrandom with a fixed pattern (one order per pair is exercised). Nine further operations and five further prepared "
                  "states are defined in Driver/C12.lean from the same program constructors of Model/FsProg.lean. Refinement (M3) is proved for three "
                  "write programs; for the others the fault-free model run is compared with the real run (trace cases: call set, "
                  "prepared and final directory). Trusted: Lean kernel; Spec/FaultReport.lean (my reading of the property); the shim "
                  "harness/shim/faultfs.c (interposition checked on every run: the injected call must be the k-th call of the "
                  "fault-free log and carry the INJ mark); harness c12.rs / c12op.rs; tbp.rs for the phases.",
    "shrink": [],
    "rule": "quick: 93 (operation, prepared state) pairs (33 operations, 3199 real call positions -> 9597 fault points; layer states absent / orphan toml / bare dir / restored-min / "
            "typed / full (env, env.build, env.launch + process dir, exec.d, bin, nested data, two SBOM files) / invalid metadata / "
            "broken toml / stale (decodes as M with a value the data-dependent callbacks reject: v = 7), and - so that every loop of the code runs more than once and a fault can hit its 2nd iteration - rich (2-3 files in "
            "every env directory, two process directories with two files each, two exec.d programs, three files in nested data, all three SBOM "
            "formats), richinv (the same with undecodable metadata), spdx (only the middle SBOM format present), wide (33 files in the layer, "
            "21 env files, 17 exec.d programs), emptyvals (an env file and an SBOM without bytes); phase states clean / existing outputs; "
            "operations incl. write_env with several entries per scope and two process types, write_sboms of all three formats / only spdx / "
            "an SBOM without bytes, write_exec_d_programs with three programs, trait-API create/update results of that size, a build result "
            "with all six SBOM files; cached-migrate on min / invalid / richinv / broken / stale and t-migrate on min / full / invalid / richinv / stale: callbacks that are functions of what libcnb read - invalid_metadata_action and migrate_incompatible_metadata migrate the old metadata { w } to V { v: w + 10 } and delete / recreate when there is nothing to migrate from, restored_layer_action keeps v = 1 or v > 10 and deletes otherwise, existing_layer_strategy keeps a migrated layer, updates a current one whose env read back sets FOO (update writes v + 3), keeps it otherwise and recreates any other - so a read error presented to a callback as empty data ends in Ok with a different directory = a spec failure, not only a model disagreement); per pair one trace case (fault-free: result, set of libc-level "
            "calls as class:path:result, prepared and final snapshot - all four compared with the model's fault-free run) and, for "
            "EVERY position k of the real call list (file opens, directory opens, writes, reads, mkdir, unlink, rmdir, chmod, copy), one fault "
            "case per errno in {EIO, EACCES, ENOSPC}, plus ENOENT at every "
            "delete-type call (unlink, rmdir, chmod, opendir). thorough: every operation on every prepared state (400 pairs, 11762 positions -> 35286 fault "
            "points), same enumeration. Positions come from the real trace; the children run with a fixed getrandom pattern so that the "
            "iteration order of libcnb's HashMaps (process env deltas, exec.d programs) is the same in the fault-free and the faulted run. "
            "The model is asked by CLASS of the failed call, not by position: the "
            "observation names the failed libc call as class:path:fault-free-result plus its occurrence number among the std calls "
            "with that key; the driver finds the occ-th primitive call of the model's fault-free run that issues such a libc call "
            "(Model/FsProg.libcCalls), fails it and answers err / ok:same / ok:diff (model final state incl. directory modes vs. "
            "model fault-free state). Spec oracle = the property: err, or ok with a snapshot equal to the fault-free one; "
            "ENOENT at a delete-type call is excluded. Left out: symlinks / hard links / read-only entries in the prepared states (the model's "
            "file system has files and directories only; C11 covers deleting such trees), dotted layer names (no call of the operations depends "
            "on the name), retry after a failed call (not part of the property). non-trivial = a fault case (a real child run in which the injected call "
            "was hit); distinct = distinct (operation, state, position, errno)",
    "exhaustive": True,
    "trusted_base": ["Spec/FaultReport.lean is my reading of C12 (reported = Err or directory equal to the fault-free one; "
                     "exclusion = ENOENT at a delete-type call)",
                     "harness/shim/faultfs.c (LD_PRELOAD interposer: open/open64/openat/openat64, opendir, write, read, mkdir, unlink, "
                     "unlinkat, rmdir, rename, chmod, fchmod, copy_file_range, sendfile64; fd -> path table; getrandom answered with a fixed "
                     "pattern when FAULTFS_FIXED_RANDOM=1)",
                     "harness/src/bin/c12op.rs (one public-API call per child, shim armed only around it) and tbp.rs (phases)"],
    "assumptions": COMMON_ASSUME + [
        "the Rust code makes its file-system calls through the libc entry points the shim interposes (checked: every pair's real "
        "call set equals the model's; a call made through another entry point would be missing from the real set)",
        "std::fs propagates a failing libc call as Err (Rust 1.95: create_dir_all absorbs only EEXIST on an existing directory, "
        "remove_dir_all only ENOENT); an std that absorbed more would show up as a disagreement, not as a violation",
        "a single fault per run (the property's 'any single file-system operation')",
    ],
}
