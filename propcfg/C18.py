from propcfg.common import COMMON_ASSUME

CFG = {
    "bin": "c18",
    "technique": "Lean 4 proof (fold invariants for max_by_key / partial_max_by_key over any lawful order; hex and split_once lemmas) "
                 "+ differential correspondence (exhaustive small inventories x all queries; enumerated checksum strings, each through every entry path: "
                 "FromStr, Deserialize on its own, inside an inventory document in every TOML string notation)",
    "level_text": "Theorems (all inputs, no bound; generic in the version type, its comparison and the metadata type): resolve_maximal (every "
                  "Ord comparison with irreflexive, transitive <, and == compatible with <), partial_resolve_maximal (every PartialOrd comparison "
                  "with irreflexive, transitive <, duality, == compatible with <; incomparable pairs unconstrained), none_iff_nothing_matches, "
                  "hex_roundtrip, checksum_accepted_iff_grammar (+ checksum_value, spec_oracle_is_grammar), record_checksum_is_from_str + "
                  "record_accepted_iff_checksum_grammar + inventory_accepts_only_grammar_checksums (acceptance does not depend on the entry "
                  "path: the checksum string of an artifact record is judged exactly like the same string given to from_str - model: "
                  "Deserialize = from_str of the decoded string), checksum_roundtrip, "
                  "inventory_roundtrip_partial (serde-record level). Tied to the code by a differential run of the real "
                  "Inventory::resolve/partial_resolve/to_string/parse and Checksum::from_str/Serialize/Deserialize, every checksum candidate "
                  "through 9-11 entry paths with the spec oracle applied to each path's outcome.",
    "level_note": "The spec oracle judges the implementation's answer by maximality among the matching artifacts, not by equality with the model's "
                  "tie-break (last maximum). PARTIAL for the TOML round trip: proved at the level of the serde record of an artifact "
                  "(os/arch names, url, `name:hex` checksum string, user codecs for version and metadata); the TOML text layer (crate toml) is "
                  "not modelled and is exercised by the correspondence only (urls/checksum names with quotes, newlines, non-ASCII; family R: version "
                  "and metadata types of every TOML shape - plain values, arrays, tables, optional tables, arrays / maps of tables - rendered with "
                  "Display and parsed with FromStr, equality observed by the harness and judged by the driver). "
                  "Entry paths: the theorems say the record-level decoder hands the record's checksum string unchanged to from_str; that the real "
                  "impl Deserialize does so (no trimming / normalising on the way), and that each TOML notation decodes to the candidate, is "
                  "checked by the correspondence only (family KP: the harness builds each document with its own escaping and confirms with the toml "
                  "crate's generic Value that the decoded string is the candidate; raw CR LF inside multi-line strings is not used because the toml "
                  "crate reads it as LF - a CR is always written escaped). OS / architecture names (family N) have no clause in the property: judged "
                  "directly (rendered names read back on every path; all paths agree); FromStr's aliases osx / x86_64 / aarch64 are accepted by FromStr "
                  "only and rejected by Deserialize on the unchanged library - these three strings are generated only with VERIF_C18_ALIASES=1. "
                  "Trusted: Lean kernel; Spec/Inventory.lean (my reading of the property); harness and driver glue. Modelled, not verified: "
                  "Iterator::max_by_key returns the last maximum, hex::decode/encode, str::split_once, serde derive for Os/Arch.",
    "shrink": [(1, ","), (2, ",")],
    "rule": "T (Ord versions, resolve + partial_resolve): every inventory of <= 4 artifacts over 3 versions x 2 OS x 2 arch (12 kinds, duplicates "
            "included) x all 32 queries (2 OS x 2 arch x every subset of the versions as requirement); thorough adds every inventory of 5-6 "
            "artifacts over 3 versions x 2 OS. P (pairs under the product order, partial_resolve): every inventory of <= 4 artifacts over "
            "{0,1}^2 versions x 2 OS (8 kinds) x all 64 queries; thorough adds 5-6 artifacts over the 4 versions. Sampled 4k/60k: <= 8 "
            "artifacts, 3x3 version grid / 4 integers, metadata None/0/1 with metadata requirements. F 1.5k/20k: TOML render + parse of "
            "inventories with awkward urls and checksum names. K: 11 prefixes x every body over {0,a,F,g} of length <= 5 (6 thorough) against "
            "the 2-byte digest; every body over {0,a,F,g,+,-,' ',x} of length <= 4 (5 thorough) after 'd2:'; one or two special characters (+ - blank tab _ x X g G NUL . : and 2-/3-byte characters e-acute, check mark, full-width zero) at every position (even and odd offsets) of bodies of 1..5 slots, and inserted at / replacing every position of the algorithm name, for the 2-byte and the unconstrained digest; a valid 64-digit string with each special at every offset (byte length kept) and '+a' x 32 for the 32-byte digest; 6k/60k sampled strings around 64 digits for a 32-byte digest, the unconstrained digest `()`, mixed case, one "
            "bad character, missing colon. Directed families (sizes = 16/17, 20/21, 32/33, 64/65, 128/129, 256/257, thorough also 500, 1000, 2000): "
            "T-big — inventories of that many artifacts in 13 shapes (ascending, descending, all equal, three values, u32 boundary pool, single "
            "maximum first / last / middle / at position 32 / 33, maximum repeated every 5th, sawtooth, only every 7th artifact matching), "
            "P-big — 14 shapes under the product order (antichain (i,250-i) both directions, antichain + top element first / last / middle, "
            "+ bottom element, + several tops, two antichains one above the other, chain both directions, 16x16 grid, all equal, antichain with "
            "duplicates, random); 16-30 queries each: all 4 OS/arch, requirement forms built from versions that occur (set, single, >=v, <v, "
            "window lo_hi, none), metadata conditions, 1/4 of the questions asked through a requirement type that implements only "
            "VersionRequirement (the library's blanket impl of ArtifactRequirement; query metadata field `v`), the same question repeated; every 4th case interleaved (queries `N@...` asked on the "
            "same Inventory object while it grows through 0, 1, 2 and every threshold below its size, then one step back); T-values / P-values "
            "600 / 6 000 — up to 10 artifacts over u32 boundary values (0..2^32-1 around every power-of-two and decimal-length boundary) and "
            "their neighbours, pairs over {0,1,2,3,127,128,254,255}^2 with swapped / shifted neighbours, metadata None/0/1/2/127/128/254/255; "
            "F-text — 73 urls (BOM, LF, CRLF, lone CR, C0/C1 controls, NUL, DEL, NBSP, U+2028/9, every quote run, backslashes, TOML look-alikes "
            "true/inf/nan/dates/table headers/comments, non-BMP, RTL mark, combining, U+FFFD/FFFF/10FFFF, 255..4096 characters), 53 checksum "
            "names (empty, blanks, line ends, BOM, case variants, quotes, controls, non-ASCII, TOML punctuation, 255..4096 characters), 17 "
            "digests (empty .. 2048 bytes, upper case) each on its own; F-wide 300 / 3 000 mixed inventories of 0..12 artifacts (1/4 with one "
            "metadata value throughout), F-big of the sizes (mixed; n distinct plain artifacts; one artifact n times); K-decorated — 6 valid "
            "strings (2-, 32-, 64-byte, unconstrained digests, empty name / digest) x 22 decorations (LF, CRLF, CR, blank, tab, BOM, NUL, NBSP, "
            "U+2028, NEL, 0x, quotes, ':', ';', ...) before / after / around the colon / both ends, case variants of the name; K-long — digests "
            "of 32, 64, 128, 256, 2048 bytes +-2 digits for the 64-byte (sha512) and the unconstrained digest, one bad character (g + blank LF) "
            "at the end / at digit 64 / 129 / the middle, names and digit runs of 255..4096 characters, colons only. "
            "R (round trip through Inventory's Display/to_string and FromStr with typed versions and metadata; judged directly: parsed artifacts "
            "== original, field by field, and the second rendering == the first) — 4 version types (u32, String, tuple struct = array, struct = "
            "table) x 19 metadata types (Option<()> None, Option<u8>, i64, f64, bool, String, unit-variant enum, Vec<u32>, Vec<String>, tuple, "
            "newtype, struct = table, BTreeMap<String,String>, Option<struct>, Option<map>, struct with optional fields incl. an optional table, "
            "Vec<struct> = array of tables, map of structs, nested struct holding a table, an optional table, an array and a map of tables) x "
            "inventories of 0, 1, 2, 3, 17, 33 (thorough 65, 257) artifacts, then 4 / 40 more draws at 1, 2, 3, 5 artifacts; values derived "
            "from 46 texts (empty, multi-line, CRLF, quotes, backslash, non-ASCII, BOM, NUL, DEL, blanks, TOML look-alikes, keys needing quotes, "
            "255..600 characters), 1/4 of the inventories with one text throughout. ENTRY PATHS (kind KP): every checksum string of every K family above, in both tiers, is not only given to "
            "str::parse::<Checksum<D>>() (fs) but also to Deserialize on its own - serde's &str deserializer (ds), serde_json::from_str of the JSON "
            "string (dj), toml::from_str of a one-field record (dt), a toml::Value (dv) - and placed as the checksum of a one-artifact inventory read "
            "with Inventory::from_str as TOML basic string (ib), multi-line basic string with raw line feeds (imb), literal string (il) and multi-line "
            "literal string (iml) when the text allows these two (no apostrophe / control character; the case's last field lists them), the inventory "
            "from a JSON value (ij) and one Artifact with toml::from_str (at); the spec oracle (grammar, name, digest value) judges each path's outcome, "
            "the verdict names the first deviating path. N — 7 names (linux darwin amd64 arm64 + FromStr aliases osx x86_64 aarch64) x 22 decorations "
            "x 5 places (after, before, both ends, twice after, in the middle), 42 near misses (case variants, prefixes, look-alike characters, other "
            "OS / arch names), each as OS and as architecture through the same paths (the three bare aliases only with VERIF_C18_ALIASES=1). "
            "non-trivial: T/P = two artifacts share OS and arch (some query has several candidates); "
            "F, R = at least one artifact; K/KP = the string holds a colon; N = non-empty string; distinct = distinct input line",
    "exhaustive": True,
    "search_rounds": 1,
    "search_tier": "quick",
    "trusted_base": ["Spec/Inventory.lean is my reading of the property (Acceptable; ChecksumGrammar)",
                     "the TOML text layer of Inventory's Display/FromStr is sampled, not proved (inventory_roundtrip_partial)",
                     "entry paths of a checksum string: that impl Deserialize for Checksum = from_str of the decoded string (model: decodeArtifact) is "
                     "tied to the code by the KP cases only; the harness's TOML escaping helpers (toml_basic, toml_ml_basic, toml_literal, "
                     "toml_ml_literal in harness/src/bin/c18.rs) and the toml crate's generic Value used to confirm that each document holds the "
                     "candidate string; serde's StrDeserializer, serde_json and toml as carriers",
                     "OS / architecture names: no spec clause; FromStr mirrored in Driver/C18.lean (osFromStr, archFromStr), path agreement judged by "
                     "the driver; bare FromStr aliases excluded by default (VERIF_C18_ALIASES=1 turns them on)"],
    "assumptions": COMMON_ASSUME + [
        "V's Ord / PartialOrd implementation satisfies the order laws stated as hypotheses (TotalLaws / PartialLaws in Spec/Inventory.lean)",
        "Iterator::filter/max_by_key/fold (std), hex::decode/encode, str::split_once behave as modelled",
    ],
}
