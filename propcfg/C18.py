from propcfg.common import COMMON_ASSUME

CFG = {
    "bin": "c18",
    "technique": "Lean 4 proof (fold invariants for max_by_key / partial_max_by_key over any lawful order; hex and split_once lemmas) "
                 "+ differential correspondence (exhaustive small inventories x all queries; enumerated checksum strings)",
    "level_text": "Theorems (all inputs, no bound; generic in the version type, its comparison and the metadata type): resolve_maximal (every "
                  "Ord comparison with irreflexive, transitive <, and == compatible with <), partial_resolve_maximal (every PartialOrd comparison "
                  "with irreflexive, transitive <, duality, == compatible with <; incomparable pairs unconstrained), none_iff_nothing_matches, "
                  "hex_roundtrip, checksum_accepted_iff_grammar (+ checksum_value, spec_oracle_is_grammar), checksum_roundtrip, "
                  "inventory_roundtrip_partial (serde-record level). Tied to the code by a differential run of the real "
                  "Inventory::resolve/partial_resolve/to_string/parse and Checksum::from_str/Serialize.",
    "level_note": "The spec oracle judges the implementation's answer by maximality among the matching artifacts, not by equality with the model's "
                  "tie-break (last maximum). PARTIAL for the TOML round trip: proved at the level of the serde record of an artifact "
                  "(os/arch names, url, `name:hex` checksum string, user codecs for version and metadata); the TOML text layer (crate toml) is "
                  "not modelled and is exercised by the correspondence only (urls/checksum names with quotes, newlines, non-ASCII). "
                  "Trusted: Lean kernel; Spec/Inventory.lean (my reading of the property); harness and driver glue. Modelled, not verified: "
                  "Iterator::max_by_key returns the last maximum, hex::decode/encode, str::split_once, serde derive for Os/Arch.",
    "shrink": [(1, ","), (2, ",")],
    "rule": "T (Ord versions, resolve + partial_resolve): every inventory of <= 4 artifacts over 3 versions x 2 OS x 2 arch (12 kinds, duplicates "
            "included) x all 32 queries (2 OS x 2 arch x every subset of the versions as requirement); thorough adds every inventory of 5-6 "
            "artifacts over 3 versions x 2 OS. P (pairs under the product order, partial_resolve): every inventory of <= 4 artifacts over "
            "{0,1}^2 versions x 2 OS (8 kinds) x all 64 queries; thorough adds 5-6 artifacts over the 4 versions. Sampled 4k/60k: <= 8 "
            "artifacts, 3x3 version grid / 4 integers, metadata None/0/1 with metadata requirements. F 1.5k/20k: TOML render + parse of "
            "inventories with awkward urls and checksum names. K: 11 prefixes x every body over {0,a,F,g} of length <= 5 (6 thorough) against "
            "the 2-byte digest; every body over {0,a,F,g,+,-,' ',x} of length <= 4 (5 thorough) after 'd2:'; one or two special characters (+ - blank tab _ x X g G NUL . : and 2-/3-byte characters e-acute, check mark, full-width zero) at every position (even and odd offsets) of bodies of 1..5 slots, and inserted at / replacing every position of the algorithm name, for the 2-byte and the unconstrained digest; a valid 64-digit string with each special at every offset (byte length kept) and '+a' x 32 for the 32-byte digest; 6k/60k sampled strings around 64 digits for a 32-byte digest, the unconstrained digest `()`, mixed case, one "
            "bad character, missing colon. non-trivial: T/P = two artifacts share OS and arch (some query has several candidates); "
            "F = at least one artifact; K = the string holds a colon; distinct = distinct input line",
    "exhaustive": True,
    "search_rounds": 1,
    "search_tier": "quick",
    "trusted_base": ["Spec/Inventory.lean is my reading of the property (Acceptable; ChecksumGrammar)",
                     "the TOML text layer of Inventory's Display/FromStr is sampled, not proved (inventory_roundtrip_partial)"],
    "assumptions": COMMON_ASSUME + [
        "V's Ord / PartialOrd implementation satisfies the order laws stated as hypotheses (TotalLaws / PartialLaws in Spec/Inventory.lean)",
        "Iterator::filter/max_by_key/fold (std), hex::decode/encode, str::split_once behave as modelled",
    ],
}
