from propcfg.common import COMMON_ASSUME

CFG = {
    "gen_items": ['Tables/behIdx'],
    "bin": "c04",
    "technique": "Lean 4 proof (induction over the sorted delta; per-variable rule) + differential correspondence",
    "level_text": "Theorems (all inputs, no bound): LayerEnv::apply gives every variable the value of the per-variable CNB rule "
                  "(last insert wins, append<default<override<prepend, delimiter only on non-empty previous value, all before scope), "
                  "frame, scope isolation, insertion-order independence. Tied to the code by Gen.behIdx (regenerated) and a "
                  "differential run of the real insert/apply.",
    "level_note": "Trusted: Lean kernel; my reading of the CNB rules (Spec/EnvRules, Spec/EnvSpec); translator; harness. "
                  "Modelled not verified: BTreeMap/HashMap semantics, OsString as bytes.",
    "shrink": [(2, ","), (1, ",")],
    "rule": "every case also rebuilds the value with chainable_insert (must be == and apply alike) and observes apply_to_empty(query scope) and judges it against the rule from the all-unset environment; exhaustive: every set of <=1 (quick) / <=3 (thorough) entries over 2 names x 5 behaviours x 4 scopes x 2 values, "
            "x 4 query scopes x 9 starting envs (unset/empty/non-empty per name); then seeded random insert sequences "
            "(<=24 inserts, 8 names incl. empty/non-UTF-8/dotted, 15 values/delimiters incl. line breaks, CRLF, tab, multi-byte delimiters ending in a newline, 7 scopes incl. process types named build/launch, 8 query scopes incl. an unknown process); then big deltas: 12..129 (quick) / 8..300 (thorough) variables in one scope, sizes straddling 16/17, 20/21, 32/33, 64/65, 128/129, 256/257, each variable with one of 9 order-sensitive behaviour combinations, shuffled insertion, 3 starting envs; and sampled 30..200-insert sequences over 10..80 names. "
            "every case also re-builds the value with queries made after a prefix of the inserts (and on a clone) and demands the same value and result (history independence). "
            "non-trivial = a variable has >=2 entries reaching the query scope, or an entry meets a variable set in the starting env; "
            "distinct = distinct input line",
    "trusted_base": ["Spec/EnvRules.lean + Spec/EnvSpec.lean are my reading of the CNB env modification rules",
                     "Gen.behIdx regenerated from `impl Ord for ModificationBehavior`"],
    "assumptions": COMMON_ASSUME + ["BTreeMap iterates in key order; HashMap lookups are by key (std)"],
}
