from propcfg.common import COMMON_ASSUME

CFG = {
    "bin": "c09",
    "technique": "Lean 4 proof (regex derivative matcher = regex semantics; generated regexes = spec languages for all strings; "
                 "decimal numerals by strong induction) + regexes regenerated from the source by fancy_regex's own parser + "
                 "differential correspondence on six paths (parse, deserialisation of a TOML value / an escaped TOML value / a JSON string / a TOML table key, literal macros)",
    "level_text": "Theorems (all strings, no length bound; all numbers): each of the four regexes found in libcnb-data "
                  "(Gen.Regexes, regenerated every run) accepts exactly the spec language (layer name / process type / buildpack id / "
                  "exec.d key: character rules and reserved words); an accepted value displays and serialises as the input; "
                  "parseVersion s = (a,b,c) iff s is the three canonical numerals < 2^64 joined by '.'; parseApi s = (a,b) iff s is N or N.M "
                  "of plain digits < 2^64; display/parse are inverse (API: up to the N -> N.0 / leading-zero normal form). The model of "
                  "version/API parsing is the code after the repair of D3 (components must be plain ASCII digits). Tied to the code by "
                  "the translator (regex literals, one $regex for FromStr/Deserialize/literal macro, verify_regex shape) and a "
                  "differential run of the real parse / toml::from_str / literal macros.",
    "level_note": "Trusted: Lean kernel; my reading of the CNB spec in Spec/Grammar.lean (places where the spec is silent are listed "
                  "there: empty / line-feed layer names, ASCII reading of 'letters', u64 bound, leading zeros in API versions); "
                  "translator (syn, fancy_regex::Expr::parse_tree, regex-syntax); harness. Modelled not verified: fancy_regex/regex "
                  "matching (textbook semantics, `$` = end of text), u64::from_str, str::split/split_once, Display for u64, "
                  "serde/toml string round trip.",
    "shrink": [(1, ",")],
    "search_tier": "quick",
    "search_rounds": 1,
    "exhaustive": True,
    "rule": "fields = kind, input string (hex code points), extra. Entry paths of every single-string case (observation p;t;u;j;k): p = str::parse / TryFrom<String>, t = "
            "toml::from_str of a one-field struct in the toml crate's spelling, u = the same with every character written as a \\u escape, j = serde_json::from_str of a JSON string, "
            "k = the string as a TOML table key read through the type's Deserialize; all five must give what the grammar demands. Case variants: every ASCII-case variant (2^n; words "
            "over 10 letters sampled) of each of the six reserved words and of every alphanumeric word of the regex sources, alone and with every one-character prefix and suffix over the "
            "alphabet, on all four identifier kinds (~25 000 cases; thorough also through the four literal macros: alone and with the prefixes / suffixes a Z 0 . - _ / space). Layout words: 28 words that mean something to the directory layout (.toml .json .sbom .sbom.cdx.json .sbom.spdx.json "
            ".sbom.syft.json .cdx .tar .tgz .lock .d env env.build env.launch exec.d bin lib store.toml launch.toml build.toml plan.toml group.toml metadata layers cache config app sbom), each "
            "in lower / upper / capitalised spelling: alone; as suffix and as prefix of the stems a, web, my-layer_1 glued directly and by . - _ /; around a stem (word stem word); between two "
            "stems (directly and with dots); every ordered pair of words glued directly, by . and by / - 5 633 strings on all four identifier kinds through the five entry paths (22 532 cases; "
            "thorough also through the four literal macros). Look-alikes: "
            "reserved words (both cases) with one letter replaced by a look-alike / case-folding / compatibility character (long s, dotless and dotted i, Kelvin sign, Cyrillic, Greek, "
            "Armenian, fullwidth, ordinal indicators), the word in fullwidth, a combining acute after every position; reserved words and 8 ordinary values decorated before / after / "
            "both / inside with 36 strings (BOM, ZWSP, ZWJ, NBSP, NEL, LS, PS, RLO, combining marks, VS16, CR, CRLF, LF, TAB, space, NUL, DEL, ESC, `.`, `..`, `%`, `%20`, `+`, fullwidth / Unicode "
            "dots, hyphens, minus, low line, slashes, fullwidth / Arabic-Indic / mathematical / superscript / circled digits); versions 1.2.3, 0.0.0, 10.20.30, 2^64-1.0.1 and API versions "
            "0.10, 1, 0, 10.0, 0.2^64-1 decorated the same way and with v V = - _ 0 00 e E1 x 0x -rc1 +build and an Arabic-Indic digit before / after every component. Long strings: valid identifiers of 63..66, 127..130, 255..258, 511..514, 1023..1026, 2047..2050 bytes (also multi-byte layer names) and the same with one invalid character at the start/middle/end; digit strings of 19..21, 39..40, 255..257 digits in versions/API versions. Exhaustive: every string of length <= 3 over the 14-symbol alphabet "
            "{a Z 0 1 9 . _ - / + space LF e-acute NUL} for each of the 6 kinds (layer, process, bpid, execd, version, api), two paths each "
            "(the five entry paths) with Display, Serialize and re-parse of the Display in the observation; "
            "thorough adds every string of length 3..5 over the same alphabet (bulk cases: one per 3-character prefix, 211 strings each, "
            "classified 0/1/2) and the literal macros (layer_name!, process_type!, buildpack_id!, exec_d_program_output_key!) on all "
            "strings of length <= 3, the reserved-word edits and single code points, compiled by `cargo check --offline "
            "--message-format=json` of a scratch crate under a temp dir (diagnostics matched to literals by line; skipped when "
            "VERIF_C09_NO_MACRO is set; about a minute, more on a cold scratch target; the search rounds after a broken tie include the bulk and literal-macro cases whatever the tier). "
            "Then: the six reserved words and every alphanumeric word of the regex sources with every one-character "
            "prefix/suffix/substitution/insertion/deletion over the alphabet, on all four identifier kinds; every code point 0..0x17f "
            "(+ 10 others up to U+10FFFF) alone, inside a?a and inside 1.?.1; version/API strings from 23 number-like components "
            "(signs, leading zeros, whitespace, non-ASCII digits, 2^64-1, 2^64, 2^64+1, 10^20-1, 30-digit leading-zero numerals); "
            "Display->parse of all triples/pairs over 11 u64 boundary values; 20 000 (quick) / 200 000 (thorough) seeded random strings "
            "of length 4..40 (mostly valid, one injected fault in half of them) and 2 000 / 20 000 random u64 triples and pairs. "
            "non-trivial = the input is in the language, or becomes a member by deleting one character (near miss), or is a "
            "value round trip; distinct = distinct input line",
    "trusted_base": ["Spec/Grammar.lean is my reading of the CNB identifier / version grammars (silent places listed in its header)",
                     "Gen.Regexes regenerated from the last string literal of each libcnb_newtype!(...) with fancy_regex's parser; "
                     "shape check of newtypes.rs and verify_regex"],
    "assumptions": COMMON_ASSUME + ["fancy_regex `is_match` on `^(?!neg$)pos$` = textbook whole-string semantics (`$` only at end of text, `.` = any scalar value but LF)",
                                    "u64::from_str accepts an optional '+', then ASCII digits, fails on overflow (std)",
                                    "the model of version/API parsing is the code *after* the D3 repair; on an unrepaired tree the check reports the '+' inputs"],
}
