from propcfg.common import COMMON_ASSUME

CFG = {
    "bin": "c15",
    "technique": "Lean 4 proof (flat-tree model of the package directory: lookup after write / remove_dir_all / a fold of wipe-then-write steps; "
                 "C13's build-order theorem carried through execute; the selection clause as a function `selectionOf ws inv` that has no package directory among its inputs; "
                 "C14's descriptor model for composites) + differential correspondence "
                 "against the real cargo-libcnb executable built from /repo on generated cargo workspaces",
    "level_text": "PARTIAL (cargo, rustc, the ignore walker and the file system are runtime). Theorems on the model of `execute` "
                  "(every workspace, invocation directory, profile, --package-dir and EVERY tree found in the package directory; no bound): "
                  "selection — the packaged buildpacks are exactly the selected ones (the buildpack whose directory is the invocation directory, "
                  "else all libcnb.rs/composite buildpacks from the workspace root) and their transitive libcnb: dependencies, each once, "
                  "dependencies first (via C13); selection_independent_of_package_dir — what a successful run selects, packages (order) and prints is "
                  "`selectionOf ws inv`, a function of workspace and invocation directory only, for EVERY --package-dir (outside the workspace, the "
                  "workspace root, an ancestor of buildpack source directories, a buildpack's own directory ...): the package directory enters "
                  "the result only through the names of the output directories; outcome_independent_of_package_dir — two runs from the same "
                  "directory with any two configurations / package directories / pre-existing trees both succeed or fail with the same error, "
                  "package the same ids in the same order and print the output directories of the same ids; contents — the output directory of every packaged libcnb.rs buildpack holds the byte-identical "
                  "buildpack.toml, the main binary as bin/build, bin/detect -> build, every additional bin target under "
                  ".libcnb-cargo/additional-bin/<name>, a package.toml, and nothing else; of every composite the byte-identical buildpack.toml and "
                  "the package.toml normalised by C14's model under a map sending ids only to output directories of buildpacks packaged in this run, "
                  "and nothing else; stdout_exact — the printed lines are the output directories of the selected buildpacks, each once, no "
                  "unselected dependency; stale_independent — for any two pre-existing trees the outcome, stdout, packaged set and every entry at "
                  "or below every packaged output directory are equal (seed2 = [] is the empty directory), with no hypothesis at all; frame — "
                  "nothing outside those directories changes; main_target_rule — 0 bins => NoBinTargets, 1 => that one, several => the one named "
                  "like the package else AmbiguousBinTargets, and a run that must package an undetermined buildpack fails; output directory names "
                  "of distinct ids over the CNB alphabet are distinct. Tied to the code by running the real executable.",
    "level_note": "Trusted: Lean kernel; Spec/Packaging.lean (my reading of 'selected', 'output directory', 'main binary', 'link to it', "
                  "'normalised', 'same as packaging into an empty directory'; its executable judge is what is applied to the implementation's "
                  "observations and is NOT proved equivalent to the Prop-level definitions the theorems use); harness (generation of a real cargo "
                  "workspace from the abstract one, tokenisation of file contents: artifacts are recognised by an embedded marker AND byte equality "
                  "with target/<triple>/<profile>/<bin>; when the package directory is or holds workspace sources, the observed tree is what lies below "
                  "it minus the sources as materialised and minus cargo's target/ and Cargo.lock, and the sources are compared before/after on their own: "
                  "a changed source entry is a spec failure) and driver glue. Modelled, not verified: cargo (locate-project, metadata, build, "
                  "artifact location), rustc, ignore::Walk (the walk order is irrelevant to the observed result; hidden directories are "
                  "skipped by the walker and not generated), std::fs (remove_dir_all is taken to succeed — the code ignores its result; as root it "
                  "does), petgraph, toml/serde, uriparse, clap. Error runs are compared by error class and stdout only (the tree after a failed run "
                  "depends on the walk order). Only --target x86_64-unknown-linux-gnu with --no-cross-compile-assistance is exercised (no musl "
                  "toolchain here). Outside the quantifier: workspaces without the ignore file for the package directory (a second run then "
                  "discovers packaged composites), buildpack ids whose directory name is '.' or '..' (the output directory then IS the profile / "
                  "target directory and its wipe removes sibling outputs — see corpus/C15/boundary-dot-id.case.inactive), output directories whose path "
                  "is occupied by a regular file, duplicate buildpack ids, bin target names shared by two crates of one workspace.",
    "shrink": [(4, "|"), (0, ";")],
    "search_rounds": 1,
    "search_tier": "quick",
    "rule": "part 1 (bounded exhaustive): six fixed workspaces (three with special roots: the workspace root itself a libcnb.rs buildpack "
            "[root package + members] next to a member that is not among its dependencies; a composite at the root with members below and a "
            "buildpack nested inside another buildpack's directory; a buildpack crate that is its own cargo workspace [excluded from the outer "
            "one, own target/ and packaged/] with a composite nested in it; and: single buildpack + foreign directory; two libcnb.rs buildpacks with 3 and 1 bin "
            "targets + foreign + two stacked composites with libcnb:/path/docker/https dependencies; a composite whose directory contains one of "
            "its libcnb.rs dependencies + an ambiguous crate + a standalone one) x every invocation directory (root, every buildpack directory "
            "incl. foreign, plain directories incl. <buildpack>/src = inside a buildpack but not a buildpack directory) x dev/release, clean package directory. part 2: 28 (quick) / 300 (thorough) seeded random "
            "workspaces: 1..3 (thorough 1..5) libcnb.rs buildpacks (bin targets: main only / main+1 / main between 2 others / a single one not "
            "named like the package / two with none named like the package (ambiguous) / none; at most one undetermined crate per workspace), "
            "0..2 (3) composites whose dependencies mix libcnb: references to libcnb.rs buildpacks and earlier composites (DAG), relative "
            "paths to the foreign directory spelled with ./ // sub/.. , to nowhere, docker/https/urn/file/absolute URIs, 1/24 a dangling "
            "libcnb: reference, 1/25 a libcnb: reference to the foreign buildpack; 0..1 (2) foreign buildpack directories; 1/4 of the workspaces have a libcnb.rs "
            "buildpack AT the workspace root, 1/8 a composite at the root, 1/4 a crate nested inside the first crate's directory, 1/4 a last crate "
            "that is its own cargo workspace (kind S); one invocation from <crate>/src or another plain directory 1/2 of the time; 4 descriptor "
            "spellings (comments, CRLF, non-ASCII, inline tables); an .ignore file for the package directory; each x every invocation "
            "directory (unselectable ones — foreign, plain — 1/3 of the time), with random profile, --package-dir (default 3/5; relative, relative with dots, leaving the workspace, absolute, "
            "absolute with trailing slash, absolute with ..), and package-directory history: clean 6/20; 1..6 pre-seeded entries 7/20 (stale "
            "files, a directory where a file belongs, a file where a directory belongs, stale and dangling symlinks incl. bin -> elsewhere "
            "and the output directory itself a symlink, truncated binary, foreign content elsewhere, other profile); 7/20 a real earlier run "
            "(other invocation directory, 1/4 other profile) followed by 0..5 crash-like deletions / overwrites of what it wrote. "
            "part 3 (the relation between the package directory and the source tree; switch VERIF_C15_NO_PKGDIR_RELATIONS=1 leaves it out): "
            "3a bounded: four of the fixed workspaces (single buildpack + foreign; two buildpacks + foreign + two composites; root = libcnb.rs "
            "buildpack; own-workspace crate) x invocation directories (root, a libcnb.rs directory, a composite directory, a plain directory, the "
            "own-workspace crate) x package directory = the root of the cargo workspace / every plain ancestor of buildpack directories "
            "(of all = anc-all, of some = anc-some) / every buildpack's own directory incl. foreign / <crate>/src / a fresh sibling of buildpack "
            "directories / a fresh directory inside cargo's target/ (from non-root invocation directories: the root, the invocation directory "
            "itself and one directory per other relation), spelled in rotation as relative path (`.` / `..` / `bps` ...), absolute, absolute with "
            "trailing slash, absolute with .., relative with .., through a symbolic link $T/lnk (with and without trailing slash); first run, "
            "ignore file covering <package dir>/<triple>/ only (the sources stay visible), dev 2/3 release 1/3 = 88 cases; 3b: 14 (quick) / 150 "
            "(thorough) seeded random workspaces (same workspace generator as part 2) x invocation from the root (twice when the root is no "
            "buildpack) + one or two libcnb.rs/composite directories + 1/3 a plain directory, x a uniformly drawn relation of those present, a "
            "directory of that relation, a spelling, a profile, and history: first run with ignore file 5/12, first run WITHOUT any ignore file "
            "2/12, 1..6 pre-seeded stale entries 2/12, a real earlier run into the same directory + 0..5 deletions 3/12 (ignore file present). "
            "Buildpack ids are drawn from a fixed list none of which names a source path below <dir>/<triple>/<profile>/, so the destination wipe "
            "cannot reach sources by construction; sources are compared before/after anyway. Every case "
            "runs cargo for real (8 in parallel, 120 s limit per run, a timeout is retried once alone and reported as such). non-trivial = a "
            "successful run that rebuilt over stale/earlier content or packaged a dependency beyond the selection or a crate with several "
            "bin targets or wrote its output into a directory that is or holds buildpack sources, or a run that must fail for an undetermined "
            "main binary; distinct = distinct case line",
    "trusted_base": ["Spec/Packaging.lean is my reading of the property text (selection, output directory layout, main binary, normalised, nothing else)",
                     "the abstraction from a generated cargo workspace to the model's abstract workspace (ids, directories, package names, bin targets, "
                     "descriptor bytes) is part of the harness; so is the recognition of artifacts and of package.toml documents",
                     "cargo/rustc/ignore::Walk/std::fs are runtime: modelled (Content.artifact, ws.dirs, flat tree), sampled by the correspondence",
                     "the harness hides the materialised workspace sources and cargo's target/ + Cargo.lock from the tree observed below a package "
                     "directory that holds them, and reports a changed source entry separately (src-changed => spec failure); the symbolic link "
                     "$T/lnk to a workspace directory is resolved by the harness only"],
    "assumptions": COMMON_ASSUME + ["cargo locate-project --workspace resolves to the innermost enclosing crate that is its own workspace, else to the outer root "
                                    "(Model effectiveWorkspace; cargo is runtime, sampled)",
                                    "the workspace carries an ignore file (.ignore) for the output directory (property quantifier): the package directory itself when it is a "
                                    "fresh directory, <package dir>/<target triple>/ when the package directory is or holds workspace sources (ignoring it as a "
                                    "whole would hide the buildpacks); without any ignore file only first runs (nothing to re-discover) are exercised",
                                    "the package directory is not cargo's target/ directory itself (bin target names would collide with output directory names) "
                                    "and not a directory above the workspace root; no buildpack id names an existing source path below <package dir>/<triple>/<profile>/",
                                    "buildpack ids are pairwise distinct, their directory names are not '.' or '..', libcnb: references form a DAG",
                                    "remove_dir_all of an output directory succeeds (its result is ignored by the code; it does for root and for anything the tool itself writes)",
                                    "every libcnb.rs crate is a member of the cargo workspace at the root or (kind S) its own workspace excluded from it; bin target names are unique per workspace; "
                                    "an earlier run in a case belongs to the same cargo workspace as the observed one"],
}
