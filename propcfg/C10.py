from propcfg.common import COMMON_ASSUME

CFG = {
    "gen_items": ['Tables/behIdx', 'Tables/writeSuffix', 'Tables/readSuffixTable', 'Tables/readNoExtension', 'Tables/layerPathSpecs', 'Tables/pathListSeparator'],
    "bin": "c10",
    "technique": "Lean 4 proof (generated table = CNB table; implicit rule after explicit entries; read/write cycle) + exhaustive correspondence",
    "level_text": "Theorems (all layer directories, environments, variables): the generated layer-path table is the CNB table; in build/launch "
                  "a variable gets <layer>/<sub> prepended with ':' exactly when the table lists it and the path is a directory "
                  "(following symlinks), applied after the explicit entries; no other scope is affected; the writer never looks at "
                  "the implicit deltas; read->write->read leaves env/env.build entry-for-entry unchanged and the environment "
                  "identical. Correspondence: all 6^4 kinds x explicit configurations on real directories with 3 cycles.",
    "level_note": "Trusted: Lean kernel; Spec/LayerPaths (my reading of the CNB layer-paths table); translator; harness. Modelled not "
                  "verified: Path::is_dir (follows symlinks), std::fs. The env.launch directory is shown unchanged by the cycle only up to "
                  "what reading it yields (directory listing order is not an observable); the byte-level fixpoint of all three env "
                  "directories over 3 cycles is compared on real directories by the correspondence.",
    "shrink": [(1, ",")],
    "exhaustive": True,  # the 6^4 family is enumerated completely; the sampled part is additional
    "rule": "exhaustive in both tiers: all 6^4 assignments of {absent, dir, file, symlink->dir, symlink->file, dangling} to "
            "bin/lib/include/pkgconfig x 3 (thorough 4) explicit environments (none; append+delimiter on PATH, override LD_LIBRARY_PATH, "
            "launch prepend CPATH; build override/launch append/process prepend on PATH, default on LD_LIBRARY_PATH; custom delimiters); each case "
            "probes apply() for 7 scopes (all, build, launch, process web/worker/build/launch) x 2 starting envs (unset / every variable set) and "
            "runs 3 read->write cycles with env* snapshots; plus 600 (quick) / 6 000 (thorough) sampled cases of that shape. Further families (a "
            "third starting environment given by the case; `$L` in a value stands for the layer's own path): 'kinds2' six more ways of (not) being "
            "a directory - non-empty directory, symlink chain, relative symlink, directory with mode 000, symlink loop, FIFO - in every position; "
            "'start' every value of a pool (empty, ':', leading / trailing / doubled separator, the layer's own bin / lib / include directory "
            "alone or inside a list, non-UTF-8, blank, ';', line break, 300 bytes) as the starting value of all path variables x 4 kind vectors x "
            "2 explicit environments; 'selfref' explicit entries whose value is the implicit entry itself, every behaviour x scope, with and "
            "without the same value in the starting environment; 'nearname' 17 variable names one edit from the path variables (case, suffix, "
            "prefix, trailing dot / blank / non-UTF-8 byte, '=' inside, 200 characters) with explicit entries, probes and starting values; "
            "'big' 17/21/33/65/129 (thorough 15..200) explicit entries over four scopes among the path variables; 'rnd2' 700 (quick) / 6 000 "
            "(thorough) sampled cases over all twelve kinds, names from the path variables and the near names, values and random starting "
            "environments from the pool, one in six through a symlinked layer directory. "
            "non-trivial = at least one of the four paths is a directory or leads to one; distinct = distinct input line",
    "trusted_base": ["Spec/LayerPaths.lean is my reading of the CNB layer-paths table",
                     "Gen.layerPathSpecs / Gen.pathListSeparator regenerated from layer_env.rs (incl. the is_dir guard and Prepend+Delimiter shape check)"],
    "assumptions": COMMON_ASSUME,
}
