from propcfg.common import COMMON_ASSUME

CFG = {
    "bin": "c02",
    "technique": "Lean 4 proof (step theorem for every store state + invariant, lifted to every history by induction; known deviation "
                 "excluded by a decidable per-step condition, counterexample proved) + differential correspondence",
    "level_text": "Theorems: for every state of the layers directory satisfying the reachable-state invariant (no SBOM without its layer "
                  "directory, env directories as the writer leaves them, exec.d absent or a directory) and every well-typed Layer "
                  "definition, the model of BuildContext::handle_layer (handle_layer / handle_create_layer / handle_update_layer / "
                  "write_layer with Keep|Replace / re-read) meets Spec.tStepOk: callback log exactly as the decision table says (create once "
                  "exactly when absent or recreated and then on an empty directory, strategy once exactly on a decodable layer, update once "
                  "exactly on update, migrate once exactly on undecodable metadata); after create/update types, metadata, env directories "
                  "(= CNB layout of the returned env, every scope incl. per-process), exec.d set, SBOM set, callback files are exactly the "
                  "returned LayerResult (created layers hold nothing else); after keep everything is as before with the types refreshed "
                  "(directories compared as sets of entries); the returned layer data applies, for every scope / starting env / variable, "
                  "as the CNB reading of the directory on disk (incl. implicit layer paths); other layers untouched; the invariant is "
                  "re-established; hence for every history from the empty directory, of any length. The same executable Spec.tStepOk "
                  "judges every step of the real code's histories.",
    "level_note": "Partial at one clause: Keep re-writes the metadata as decoded by the layer's metadata type, dropping keys the type does "
                  "not know (known finding C02-keep-drops-unknown-metadata-keys): FullStatement is disproved "
                  "(keep_drops_unknown_keys_counterexample), every_history_partial / every_state_partial hold under the decidable per-step "
                  "condition Spec.keepDropsNothing, every_history_modulo_dropped_keys holds unconditionally with that one clause read 'as "
                  "the type sees it'. Trusted: Lean kernel; Spec/TraitSpec (my reading of the property: classification, decision table, "
                  "layout of a returned env, CNB reading of a layer directory); harness incl. its lifecycle-restore simulation. Modelled "
                  "not verified: std::fs, toml text of <layer>.toml (compared as a document: types + metadata keys v,w), metadata drawn from "
                  "a two-key domain with the two metadata types GenericMetadata and struct{v:i64}, the re-entry after a metadata migration "
                  "bounded by fuel under the assumption that a replacement decodes as the layer's type, one SBOM per format, a failing "
                  "callback writes nothing. Hypotheses of the theorems (hold for every LayerEnv the public API can build, see C03): "
                  "non-empty variable names, process types not equal to a launch file name; callbacks do not create entries named env, "
                  "env.build, env.launch, exec.d. I/O failures: C12; permissions/symlinks inside layers: C11.",
    "shrink": [(1, ";")],
    "rule": "exhaustive: all histories of length <=2 over one layer name and a 23-operation alphabet (generic/versioned metadata type x "
            "strategy keep/update/recreate/fail x migration recreate/replace/fail x create/update succeeding with rich results or failing, "
            "missing exec.d source, restore, corrupted metadata file); family 'scopes': an env populating all five scope directories, then "
            "update / recreate (with and without a restore) returning exactly the entries of every one of the 32 subsets of the scopes, "
            "everything else identical; family 'sets': identical env, every subset of the exec.d programs x SBOMs, with/without the files; "
            "directed: create-restore-<every alphabet call>-restore-keep for five type combinations; 'dotted': three layers populated, restored "
            "and then kept/updated/recreated in every order, over 10 name universes (dotted prefix a/a.tools/a.sbom, a/a.b/a.b.c, another layer's "
            "file stem a.sbom.cdx / a.toml.x, case, one edit, blanks-punctuation-digits-non-ASCII, leading/trailing dots, phase-like names, "
            "200-character names); 'empties': nothing vs the empty value for every part of a result (no metadata / empty table, no env / empty "
            "env, no exec.d, no SBOMs) after a rich result, by update and recreate, restore, keep; 'chain': keep/update chains over 3..6 (thorough "
            "..9) restores with types and strategy changing, special metadata integers, ending in recreate-restore-keep; 'retry': a populated "
            "restored layer, a failing call (strategy / update / create-after-recreate / migrate callback fails, exec.d source missing, metadata "
            "file not a document), the same call again, then every strategy x migration, restore, keep; 'procs': per-process env for process "
            "types build, launch, w-1.x, 1 next to web, update/recreate keeping every subset; 'links': bin/lib/include/pkgconfig left by the "
            "callback as directory / symlink to a directory / to a file / dangling / plain file (25 combinations x keep/update/recreate over "
            "restores): returned layer data vs. the CNB reading of the directory incl. implicit layer paths; 'big': 17/21/33/65/129 (thorough: "
            "15-22, 31-34, 63-66, 127-130) env entries over all scopes and many process types / exec.d programs / files / everything at once "
            "with SBOMs of that many bytes / layers in one layers directory (quick <=65), created, restored, kept, updated to one element less or "
            "more, restored, recreated; sampled: 2 000 (quick) / 30 000 (thorough) histories of <=10 operations over two or three layer names "
            "(dotted-prefix names, plain names, or any of the universes) whose successive results on a layer are "
            "correlated: 3/4 of the results are derived from the layer's previous result by dropping a whole scope (process scopes twice "
            "as likely), dropping / changing / adding single env entries, exec.d programs, SBOMs or files, or leaving them byte-identical "
            "(env entries in all scopes incl. six process types, now and then 8-37 entries, names/values from pools with non-UTF-8, '=', "
            "suffix-like names, line breaks; contents without bytes / 300 bytes / non-UTF-8; bin/lib/include/pkgconfig/data as directories or "
            "symlinks; special metadata integers; a tagged minority carrying keys unknown to the versioned type); full snapshot of the layers "
            "directory after every step (symlinks with what they lead to). Left out: callbacks creating entries named env* / exec.d or symlinks "
            "there (hypothesis of the theorems), a layer directory without its metadata file as a starting state (no operation creates it), "
            "layer names equal to another layer's files. non-trivial = a restore followed by a "
            "handle call on a layer handled before, in a history whose results carry a per-process env entry; distinct = distinct history",
    "trusted_base": ["Spec/TraitSpec.lean is my reading of C02 (classification of the pre-state, decision table, persisted/kept clauses, CNB reading of a layer directory)",
                     "the lifecycle restore between builds is simulated by the harness exactly as the property text fixes it (same simulation as C01)"],
    "assumptions": COMMON_ASSUME + ["a ReplaceMetadata answer decodes as the layer's metadata type (otherwise the real code recurses forever; outside the quantifier)",
                                    "callbacks write plain entries outside env*/ and exec.d/; a failing callback leaves the layer directory untouched"],
}
