from propcfg.common import COMMON_ASSUME

CFG = {
    "bin": "c17",
    "extra_bins": ["trun", "standin"],
    "technique": "Lean 4 proof (round trip of the model's argv through reference docker/pack option grammars; induction over the "
                 "option list) + differential correspondence of the real TestRunner with stand-in docker/pack executables",
    "level_text": "Theorems (all configurations, arbitrary byte strings, no bound): parseDockerRun(dockerRunArgv(start_container cfg)) = "
                  "exactly the configured entrypoint/env/ports/mounts/image/command and no other option; the same for run_shell_command, "
                  "shell_exec and pack build (builder, path, buildpacks in order, every env pair, caches); configured entries reach the "
                  "command line exactly once (permutation); tokenizer-level value_positions with no hypothesis on user strings. Bind-mount "
                  "paths / buildpack references containing a CSV metacharacter are excluded (`_partial`), the full statements are "
                  "refuted by witnesses (finding D6). Tied to the code by exact argv comparison of the real TestRunner::build / "
                  "start_container / run_shell_command / shell_exec / download_sbom_files / rebuild with the model, and by the "
                  "reference parsers applied to the argv the real code produced.",
    "level_note": "PARTIAL: the docker and pack option grammars (Spec/Pflag, Spec/DockerGrammar, Spec/PackGrammar) are reference models "
                  "written from my knowledge of the cobra/pflag-based CLIs; neither tool is installed in this sandbox, so the D6 findings "
                  "(comma etc. in mount paths / buildpack references) are findings *under these grammars*. Trusted: Lean kernel; the "
                  "grammars; harness, stand-in executable and canonicaliser (random names renamed by first occurrence). Modelled not "
                  "verified: BTreeMap/HashMap/PathBuf ordering and equality, to_string_lossy on UTF-8 paths, std::process::Command argv passing.",
    "shrink": [],
    "rule": "exhaustive: each of 32 distinct hostile strings (leading dashes, option look-alikes of docker/pack, '=', spaces, empty, Unicode, shell "
            "metacharacters) alone in each of up to 12 positions (the empty string is not used as env key, mount path or buildpack reference, strings with = not as env key) (entrypoint, sole/middle command word, env value, env key, mount source, mount "
            "target, buildpack reference, builder, build env value, shell command, exec command); exhaustive part 2: 9 preprocessor edit sets (overwrite, remove-if-present, append to an "
            "existing / a new file, rename, strict remove, create-then-rename, a combination, none; append/rename/strict remove are NOT idempotent "
            "and the strict ones panic on a second application) x {relative, absolute app dir} x 5 rebuild patterns (caller's own fresh config; "
            "context.config.clone(); that plus env pairs set after the clone, one overriding an inherited key; twice in a row from the context's "
            "config; fresh rebuild then context-config rebuild) - the pack stand-in snapshots the directory given as --path at EVERY invocation and "
            "the spec oracle requires fixture + edits exactly once, judged from the configuration alone; then seeded random scenarios: "
            "build config (builder, relative/absolute app path in 9 spellings, preprocessor with <=3 edits (overwrite/remove/append/rename/strict remove) or none, <=3(+1) buildpacks, "
            "<=3 env pairs, expected success/failure) with <=3 acts out of start_container(random config: entrypoint, <=3 command words, "
            "<=3 env, <=3 ports, <=3(+1) mounts; <=3 of logs_now/logs_wait/address_for_port/shell_exec), run_shell_command, "
            "download_sbom_files, and as last act a rebuild with a second fresh config or with context.config.clone() + <=2 env pairs set after the clone "
            "(1/3 overriding an inherited key) + expected result, 1/4 of those followed by a third build again from the context's config; env lists "
            "occasionally repeat a key (last value wins); absolute app dirs go through the app_dir setter, env lists of >=2 through envs(). The texts the stand-in tools print (container id, `docker port` output, stdout) and the exit status of an expected-failure pack build "
            "rotate through 3 sets. Every 40th sample carries a CSV metacharacter in a mount path, every other 40th "
            "in a buildpack reference (kind=d6-*; none during a violation search). quick: 1600 samples, thorough: 20000. "
            "non-trivial = at least one hostile string (empty, leading '-', contains '=' or space, non-ASCII) in a user-supplied position; "
            "distinct = distinct input line",
    "trusted_base": ["Spec/Pflag.lean, Spec/DockerGrammar.lean, Spec/PackGrammar.lean are my reading of pflag's tokenizer and of the docker / pack option tables (reference models; the tools are absent)",
                     "harness/src/bin/standin.rs (argv recorder installed as docker and pack), harness/src/bin/trun.rs (scenario interpreter calling the real libcnb-test API), harness/src/lct/mod.rs (canonicaliser)"],
    "assumptions": COMMON_ASSUME + [
        "paths and strings in configurations are valid UTF-8 (to_string_lossy is the identity on them)",
        "buildpack references are non-empty, env keys contain no '=' (well-formed configurations)",
        "every buildpack is BuildpackReference::Other (nothing is compiled in the sandbox); CurrentCrate/WorkspaceBuildpack paths are not covered",
        "the image/container names come from util::random_docker_identifier (theorem generated_names_ok covers every value it can return)",
    ],
    "search_rounds": 1,
}
