from propcfg.common import COMMON_ASSUME

CFG = {
    "bin": "c17",
    "extra_bins": ["trun", "standin"],
    "technique": "Lean 4 proof (round trip of the model's argv through reference docker/pack option grammars; induction over the "
                 "option list; induction over the scenario model for the one-invocation-per-build clause, with the tools' results as a "
                 "universally quantified input) + differential correspondence of the real TestRunner with stand-in docker/pack "
                 "executables whose exit status / stdout / stderr are scripted per invocation",
    "level_text": "Theorems (all configurations, arbitrary byte strings, no bound): parseDockerRun(dockerRunArgv(start_container cfg)) = "
                  "exactly the configured entrypoint/env/ports/mounts/image/command and no other option; the same for run_shell_command, "
                  "shell_exec and pack build (builder, path, buildpacks in order, every env pair, caches); configured entries reach the "
                  "command line exactly once (permutation); tokenizer-level value_positions with no hypothesis on user strings; bind_mounts_exactly_configured (every configuration with pairwise "
                  "different source paths, any characters: the --mount values docker reads are a permutation of type=bind,source=<text>,target=<text> "
                  "over the configured pairs - texts verbatim, none missing, different texts naming one host location never merged). Bind-mount "
                  "paths / buildpack references containing a CSV metacharacter are excluded (`_partial`), the full statements are "
                  "refuted by witnesses (finding D6). Tied to the code by exact argv comparison of the real TestRunner::build / "
                  "start_container / run_shell_command / shell_exec / download_sbom_files / rebuild with the model, and by the "
                  "reference parsers applied to the argv the real code produced. ONE invocation per build call: theorem "
                  "one_pack_build_per_build_call (every scenario, EVERY oracle = whatever any pack/docker invocation returns: the pack build "
                  "commands of the run are, in order, exactly one per build/rebuild call of a prefix of the chain - the whole chain when the run "
                  "ends normally - each the command of that call's own configuration); invocations_independent_of_tool_output (two scripts of "
                  "tool results - exit, stdout, stderr per invocation - that agree on which invocations exit 0 give the identical run: same "
                  "commands, argv, order); pack_output_handed_over (every expectation x every result: a TestContext exactly when the status is "
                  "the expected kind, with pack_stdout/pack_stderr = from_utf8_lossy of THAT invocation's streams, else a panic whose message "
                  "quotes both); hand_over_one_per_invocation; lossy_identity_on_ascii. Tied to the code by scripted scenarios: the stand-in "
                  "records every invocation and what it printed; the spec oracle counts pack build invocations against the build/rebuild calls "
                  "the scenario makes (read off the scenario and the scripted statuses alone) and compares the texts the test was handed "
                  "(recorded by the scenario interpreter from TestContext / the panic hook) with what the stand-in printed at that invocation.",
    "level_note": "PARTIAL: the docker and pack option grammars (Spec/Pflag, Spec/DockerGrammar, Spec/PackGrammar) are reference models "
                  "written from my knowledge of the cobra/pflag-based CLIs; neither tool is installed in this sandbox, so the D6 findings "
                  "(comma etc. in mount paths / buildpack references) are findings *under these grammars*. Trusted: Lean kernel; the "
                  "grammars; harness, stand-in executable and canonicaliser (random names renamed by first occurrence). Modelled not "
                  "verified: BTreeMap/HashMap/PathBuf ordering and equality, to_string_lossy on UTF-8 paths, std::process::Command argv passing, "
                  "String::from_utf8_lossy (Model/PackOutput.fromUtf8Lossy mirrors std's Utf8Chunks; the spec side compares texts by their "
                  "well-formed UTF-8 content, Spec/PackInvocation, Unicode table 3-7). The property text says `one pack build invocation` per build "
                  "configuration but only `a docker run invocation` per container configuration: the count clause proved and judged here is the "
                  "pack one (the spec oracle's older docker-run/exec count checks are kept as they were); that the build's result IS the "
                  "invocation's result (hand-over) is my reading of `results in one invocation`. Not covered: CommandError::Io (spawn errors other "
                  "than not-found), a pack killed by a signal in a scripted case, outputs above ~6 kB, a pack stand-in whose behaviour depends on "
                  "how often it was called other than through the script. Bind mounts: the clause proved (bind_mounts_exactly_configured) and judged "
                  "(docker-run[j]:mounts = multiset of parsed --mount options against the configured (source text, target) pairs) treats a source as "
                  "an opaque text - as configured, one option per pair; host file-system state is a dimension of the harness only (sources that "
                  "exist, through symlinks, aliases of one location), the model has no file system by design. Identical PathBufs (component-wise: "
                  "/a/ = /a = /a/. = //a) overwrite in the configuration's HashMap - that is the configuration, not a loss. Not covered: relative "
                  "sources that exist relative to the test's working directory, existing absolute sources outside the scratch directory (/proc, "
                  "/tmp itself), a /$S source beside another absolute source in one configuration, a scratch directory whose own path is not canonical "
                  "(the harness canonicalises its root, so a rewrite that only resolves a symlinked TMPDIR prefix is seen only through the links inside).",
    "shrink": [],
    "rule": "exhaustive: each of 32 distinct hostile strings (leading dashes, option look-alikes of docker/pack, '=', spaces, empty, Unicode, shell "
            "metacharacters) alone in each of up to 12 positions (the empty string is not used as env key, mount path or buildpack reference, strings with = not as env key) (entrypoint, sole/middle command word, env value, env key, mount source, mount "
            "target, buildpack reference, builder, build env value, shell command, exec command); exhaustive part 2: 9 preprocessor edit sets (overwrite, remove-if-present, append to an "
            "existing / a new file, rename, strict remove, create-then-rename, a combination, none; append/rename/strict remove are NOT idempotent "
            "and the strict ones panic on a second application) x {relative, absolute app dir} x 5 rebuild patterns (caller's own fresh config; "
            "context.config.clone(); that plus env pairs set after the clone, one overriding an inherited key; twice in a row from the context's "
            "config; fresh rebuild then context-config rebuild) - the pack stand-in snapshots the directory given as --path at EVERY invocation and "
            "the spec oracle requires fixture + edits exactly once, judged from the configuration alone; then seeded random scenarios: "
            "build config (builder, relative/absolute app path in 9 spellings, preprocessor with <=3 edits (overwrite/remove/append/rename/strict remove) or none, <=3(+1) buildpacks, "
            "<=3 env pairs, expected success/failure) with <=3 acts out of start_container(random config: entrypoint, <=3 command words, "
            "<=3 env, <=3 ports, <=3(+1) mounts; <=3 of logs_now/logs_wait/address_for_port/shell_exec), run_shell_command, "
            "download_sbom_files, and as last act a rebuild with a second fresh config or with context.config.clone() + <=2 env pairs set after the clone "
            "(1/3 overriding an inherited key) + expected result, 1/4 of those followed by a third build again from the context's config; env lists "
            "occasionally repeat a key (last value wins); absolute app dirs go through the app_dir setter, env lists of >=2 through envs(). The texts the stand-in tools print (container id, `docker port` output, stdout) and the exit status of an expected-failure pack build "
            "rotate through 3 sets. Scripted tool results (6th field: per invocation of pack / docker its exit status, stdout, stderr; every pack "
            "invocation the scenario can make is scripted, plus two spare ones): exhaustive part 3: each of 55 texts (13 with one of the 5 "
            "retry-heuristic markers toomanyrequests / TLS handshake timeout / connection reset by peer / i/o timeout / unexpected EOF alone, inside "
            "realistic pack/docker/registry messages, in the middle of ~5 kB, between invalid bytes; 20 other failure messages incl. no such host, denied, "
            "failed to build, manifest unknown, context deadline exceeded, EOF, 429, 503, retry, name resolution, the markers in other letter case; "
            "10 ordinary outputs incl. a look-alike of the LogOutput display and ANSI colour; empty; one of ~6 kB; 10 ill-formed UTF-8 strings incl. a "
            "marker broken by an invalid byte) as "
            "what ONE pack build prints x 5 situations (expected failure with the text on stderr, exit status rotating through 1 2 125 255 51 127 130 7; "
            "expected failure with it on stdout; successful build with it on stderr; failure where success is expected; success where failure is "
            "expected - the last two must panic with a message quoting the output) + for every marker text and every 4th other text 3 chains "
            "(expected failure -> rebuild succeeding -> rebuild from context.config; success -> sbom download -> rebuild from context.config failing "
            "as expected; two expected failures with different texts -> success); then seeded random scripted scenarios (the random scenarios above "
            "with expected result Failure at 2/5, every pack build scripted to end as expected at 7/8 else against the expectation, texts from "
            "the pool on both streams, sbom downloads scripted exit 0 with texts, at 1/2 one to three docker invocations (numbers 0..7) scripted, 1/6 "
            "of them failing): quick 400, thorough 6000. "
            "Bind-mount sources that EXIST on the host when start_container runs: a source text may start with the placeholder /$S, "
            "which the scenario runner replaces by a per-case scratch directory it creates (real/ with sub/ and a file, link -> real, "
            "via/link2 -> ../real, abslink -> <absolute>/real, releases/v2/, current -> releases/v2, file, flink -> file, dangling -> "
            "nowhere) and renames back to /$S in the recorded argv; model and spec oracle see the configured text, so docker must "
            "receive exactly that text. exhaustive part 4: each of 30 spellings alone (the directory, through a symlink / an absolute "
            "symlink / a symlinked parent, with trailing slash, '.', '..', '//', below a symlink, the releases/current layout, a file, a "
            "symlink to a file, a dangling link, missing paths, the scratch root itself); every ordered pair of 7 different texts for the "
            "ONE location real/ (42 pairs, two targets); 7 triples x 3 shapes (aliases of one location at three targets / the same "
            "target, mixed with relative and missing sources). In the random scenarios one container configuration in three (never the "
            "D6 minority) draws its 1-3 sources from those pools (1/2 from the 7 aliases of one location), 1/2 mixed with relative "
            "sources; a configuration with a /$S source has no other absolute source (an absolute path sorts before a relative one "
            "whatever the temp directory is called; the order between /$S and another absolute path would depend on it). "
            "Every 40th sample carries a CSV metacharacter in a mount path, every other 40th "
            "in a buildpack reference (kind=d6-*; none during a violation search). quick: 1600 samples, thorough: 20000. "
            "non-trivial = at least one hostile string (empty, leading '-', contains '=' or space, non-ASCII) in a user-supplied position, or a bind-mount source below /$S, or (scripted "
            "cases) a scripted invocation with non-zero exit, non-empty stderr or ill-formed UTF-8; "
            "distinct = distinct input line",
    "trusted_base": ["Spec/Pflag.lean, Spec/DockerGrammar.lean, Spec/PackGrammar.lean are my reading of pflag's tokenizer and of the docker / pack option tables (reference models; the tools are absent)",
                     "Spec/PackInvocation.lean (when a handed-over string counts as the bytes a process printed: equal well-formed UTF-8 content, U+FFFD ignored) and the call/position bookkeeping of Driver/C17.lean (callsMade, packIndices: one pack build per build call, one pack sbom download per download_sbom_files, in program order)",
                     "harness/src/bin/standin.rs (argv recorder installed as docker and pack; STANDIN_SCRIPT: per-invocation exit status/stdout/stderr, STANDIN_OUTLOG: what it printed), harness/src/bin/trun.rs (scenario interpreter calling the real libcnb-test API; records TestContext.pack_stdout/pack_stderr at the start of every closure and the panic messages through a panic hook), harness/src/lct/mod.rs (canonicaliser), the scripted case runner in harness/src/bin/c17.rs"],
    "assumptions": COMMON_ASSUME + [
        "paths and strings in configurations are valid UTF-8 (to_string_lossy is the identity on them)",
        "buildpack references are non-empty, env keys contain no '=' (well-formed configurations)",
        "every buildpack is BuildpackReference::Other (nothing is compiled in the sandbox); CurrentCrate/WorkspaceBuildpack paths are not covered",
        "the image/container names come from util::random_docker_identifier (theorem generated_names_ok covers every value it can return)",
    ],
    "search_rounds": 1,
}
