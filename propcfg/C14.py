from propcfg.common import COMMON_ASSUME

CFG = {
    "bin": "c14",
    "technique": "Lean 4 proof (position-wise characterisation of replace_libcnb_uris + absolutize_dependency_paths; split/join lemmas "
                 "for normalize_path against a POSIX-style denotation of paths) + differential correspondence through package_composite_buildpack",
    "level_text": "Theorems (every descriptor, map, source location; no bound on the number of dependencies or on path length): each libcnb:<id> "
                  "becomes exactly the packaged location of that id, at its position; normalisation fails iff some libcnb reference has an "
                  "invalid id or no packaged location, and the error names it; each relative path becomes an absolute, dot-free path denoting the "
                  "directory the original denotes from the original package.toml (also above the root), idempotently; every other URI and the "
                  "buildpack URI are copied verbatim EXCEPT the class of known finding C14-authority-empty-path (authority followed by an empty "
                  "path gains '/', a scheme of uriparse's registry is printed in lower case): FullStatement is kept, refuted on the model by "
                  "full_statement_counterexample (docker://docker.io), and proved outside exactly that class (others_verbatim_partial, "
                  "buildpack_uri_preserved_partial); number and order of dependencies, buildpack URI and platform are preserved; the result contains no libcnb reference "
                  "and no relative path and is a fixed point of the normalisation from any location. Tied to the code by a differential run of the "
                  "real package_composite_buildpack whose written package.toml is read back with a generic TOML reader.",
    "level_note": "Known finding C14-root-colon-segment: uriparse 0.6 refuses a scheme-less text '/' + first segment holding ':' ('/c:/x'; later "
                  "segments and '/./c:' are accepted) although RFC 3986 allows it, so a relative dependency denoting such a path "
                  "(err:uri-of-absolutized-path), such an absolute dependency or buildpack URI (err:read) and such a packaged location of a "
                  "referenced id (err:uri-of-map-path) make package_composite_buildpack fail instead of being rewritten / copied; the model "
                  "(which has no such refusal) and the theorems describe the behaviour outside that class; the driver names the deviation "
                  "(expectedRefusal in Driver/C14.lean, computed from the case with Spec/PathDenote only) when and only when the reported error "
                  "is the one of the route the case must end in and no invalid / missing reference comes first. "
                  "Trusted: Lean kernel; Spec/PathDenote.lean (my reading of path resolution, RFC 3986 scheme syntax, the id grammar); harness and "
                  "driver glue. Modelled, not verified: uriparse 0.6 (scheme split, text round trip), std::path (components, join, pop), toml/serde "
                  "(the written text; 'parses again' is observed on every case, not proved). Outside the quantifier (DESIGN): scheme-less references "
                  "with authority, query or fragment; ports with leading zeros and non-canonical IPv6 literals (uriparse reprints them; not generated); "
                  "LIBCNB: in upper case (treated as a foreign scheme by the code); maps holding relative paths; "
                  "source locations that are not URI-safe or not absolute.",
    "shrink": [(2, ","), (4, ",")],
    "rule": "seeded sampling: 3 000 (quick) / 50 000 (thorough) descriptors with 0..10 dependencies mixing libcnb references (known id, "
            "unknown id in 3/20, invalid id in 1/20 of the cases), relative paths of 1..9 pieces from names (incl. '...', '.hidden', '..x', "
            "'x..', percent-encoded, sub-delims), '.', '..' and empty pieces, 1/6 of them climbing (mostly '..'), 1/8 prefixed by 3..12 '..' "
            "(above the scratch root and above '/'), and 22 other URIs (docker, http(s) with userinfo/port/query/fragment, urn, file, unregistered "
            "schemes, absolute paths with dots and doubled slashes); 9 buildpack URIs; in ~4% of the cases one URI of the "
            "known-finding class (authority + empty path, upper-case registered scheme; tag spelling=1) as dependency or buildpack URI; "
            "platform absent/linux/windows; maps of 0..5 ids with "
            "absolute locations (below the scratch root, outside it, with dots and trailing slash); 14 spellings of the source location "
            "(nested, './', 'sub/..', trailing '/', '//', trailing '/.', names with ' : @ + ~ ..). The written package.toml is parsed with "
            "toml::Value (generic tree) and, separately, with libcnb's own type (reparse flag). "
            "Directed families (before the sampling; sizes = 16/17, 20/21, 32/33, 64/65, 128/129, 256/257, thorough also 500, 1000, 2049): "
            "many-deps — descriptors with that many dependencies in 8 mixtures (libcnb references cycling over 5 / 33 / n ids, distinct relative "
            "paths, one dependency n times, round-robin of all kinds, random), each also with a reference without location / with an invalid id "
            "placed first, last and in the middle; big-map — id->path maps of 17..257 (1000) ids built as prefixes / extensions of one another "
            "(a, a.0, a.0/1 ..., also continuing the reserved words app, config, sbom), every id referenced once in shuffled order, one id missing; "
            "dot-chains — k = 0..9 and the sizes: k x '..', k x 'a/..', k names then k / k+1 x '..', './' and '//' runs, against 6 source depths "
            "(1..120 levels); long — names and paths of 255, 256, 257, 1000, 4095, 4096, 5000 characters as relative path, absolute path, URL, "
            "URN, buildpack URI, packaged location and id; chars — 104 segments (percent-encoded blank, '%', '/', '.', '..', NUL, LF, CRLF, BOM, "
            "UTF-8 of 2/3/4 bytes in upper and lower hex, ~ + - _ $ & ; , = ' ( ) * ! @, dots in every position, names of reserved / special "
            "files, segments holding ':' in non-first position) each as only / middle / last segment, after '..', with trailing slash, inside an "
            "absolute path, a URN, a URL, and as packaged location of a libcnb reference; src — 26 further source locations (percent-encoded "
            "octets, sub-delims, dots, 40 and 120 levels, 200- and 255-character names, 30 x 'sub/..') x the options once / twice / link / twice+link; "
            "schemes — 60 registered (all shapes: '.', '+', '-', digits), 16 unregistered (incl. mixed case) and 11 libcnb look-alike scheme names "
            "(libcnb2, libcnbx, libcnb-x, lib, libcn, xlibcnb ...) x 7 URI forms (opaque, absolute path with dots, authority + path, relative "
            "with dots, empty, userinfo/port/query/fragment, an id); spelling — the known-finding class for every scheme (upper / mixed case, "
            "authority with empty path); corr-ids — 60 / 400 maps drawn from the valid ones of 49 ids that are prefixes, one-edit or case neighbours of one another "
            "or continue a reserved word, two ids sharing a location, the location being the source directory, references to present and absent "
            "neighbours, the same text as relative path and as id; bp-uri — 22 buildpack URIs incl. libcnb: ones, climbing and percent-encoded "
            "paths. Option field (6th, harness only): twice = the function is called twice on the same destination, which by then holds a longer "
            "stale package.toml; link = the last component of the source location is a symbolic link to a directory elsewhere (the result must "
            "be the lexical one). Wide sampler 2 000 / 30 000: every dimension drawn from these pools, 1/30 of the descriptors of a threshold "
            "size, 1/20 of the maps of 17/33/65 ids, 1/2 with an option. root-colon (known finding C14-root-colon-segment; tag root-colon=1) — "
            "8 colon segments x the three routes by which a text '/<segment with colon>...' reaches uriparse: the path a relative dependency "
            "denotes after climbing to '/' (from 3 source depths, alone and between other dependencies), an absolute dependency / the buildpack "
            "URI written in package.toml, the packaged location of a libcnb reference (alone, before / after a missing or invalid reference, "
            "unreferenced); root-colon-later — the accepted neighbours (colon in a later segment, behind '/.'); the wide sampler produces the "
            "first route at random as well. Outside the quantifier "
            "and not generated: raw non-ASCII / blanks in URIs (not URIs), non-UTF-8 map paths, LIBCNB: in upper case. non-trivial = a libcnb reference is resolved "
            "or refused, or a relative path containing '..' is rewritten; distinct = distinct case line",
    "trusted_base": ["Spec/PathDenote.lean: walk/denote (lexical POSIX resolution, '..' at the root stays), kindOf (RFC 3986 scheme), idOk",
                     "Model/UriSchemes.lean: the 304 scheme names of uriparse 0.6.4's registry, copied by hand-run script (modelled external)",
                     "uriparse keeps every other part of a URI text (userinfo, host, port without leading zeros, path, query, fragment)"],
    "assumptions": COMMON_ASSUME + ["packaged locations in the id -> path map are absolute and URI-safe (both callers absolutise the package dir)",
                                    "the source location is absolute and URI-safe",
                                    "symbolic links are not considered: the normaliser is lexical by design",
                                    "no text of the descriptor, packaged location or denoted absolute path is '/' followed by a first segment holding ':' "
                                    "(uriparse refuses it: known finding C14-root-colon-segment; such inputs are generated and reported as the known finding)"],
}
