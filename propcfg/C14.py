from propcfg.common import COMMON_ASSUME

CFG = {
    "bin": "c14",
    "technique": "Lean 4 proof (position-wise characterisation of replace_libcnb_uris + absolutize_dependency_paths; split/join lemmas "
                 "for normalize_path against a POSIX-style denotation of paths) + differential correspondence through package_composite_buildpack",
    "level_text": "Theorems (every descriptor, map, source location; no bound on the number of dependencies or on path length): each libcnb:<id> "
                  "becomes exactly the packaged location of that id, at its position; normalisation fails iff some libcnb reference has an "
                  "invalid id or no packaged location, and the error names it; each relative path becomes an absolute, dot-free path denoting the "
                  "directory the original denotes from the original package.toml (also above the root), idempotently; every other URI and the "
                  "buildpack URI are copied verbatim EXCEPT the class of known finding C14-authority-empty-path (authority followed by an empty "
                  "path gains '/', a scheme of uriparse's registry is printed in lower case): FullStatement is kept, refuted on the model by "
                  "full_statement_counterexample (docker://docker.io), and proved outside exactly that class (others_verbatim_partial, "
                  "buildpack_uri_preserved_partial); number and order of dependencies, buildpack URI and platform are preserved; the result contains no libcnb reference "
                  "and no relative path and is a fixed point of the normalisation from any location. Tied to the code by a differential run of the "
                  "real package_composite_buildpack whose written package.toml is read back with a generic TOML reader.",
    "level_note": "Trusted: Lean kernel; Spec/PathDenote.lean (my reading of path resolution, RFC 3986 scheme syntax, the id grammar); harness and "
                  "driver glue. Modelled, not verified: uriparse 0.6 (scheme split, text round trip), std::path (components, join, pop), toml/serde "
                  "(the written text; 'parses again' is observed on every case, not proved). Outside the quantifier (DESIGN): scheme-less references "
                  "with authority, query or fragment; ports with leading zeros and non-canonical IPv6 literals (uriparse reprints them; not generated); "
                  "LIBCNB: in upper case (treated as a foreign scheme by the code); maps holding relative paths; "
                  "source locations that are not URI-safe or not absolute.",
    "shrink": [(2, ","), (4, ",")],
    "rule": "seeded sampling: 3 000 (quick) / 50 000 (thorough) descriptors with 0..10 dependencies mixing libcnb references (known id, "
            "unknown id in 3/20, invalid id in 1/20 of the cases), relative paths of 1..9 pieces from names (incl. '...', '.hidden', '..x', "
            "'x..', percent-encoded, sub-delims), '.', '..' and empty pieces, 1/6 of them climbing (mostly '..'), 1/8 prefixed by 3..12 '..' "
            "(above the scratch root and above '/'), and 22 other URIs (docker, http(s) with userinfo/port/query/fragment, urn, file, unregistered "
            "schemes, absolute paths with dots and doubled slashes); 9 buildpack URIs; in ~4% of the cases one URI of the "
            "known-finding class (authority + empty path, upper-case registered scheme; tag spelling=1) as dependency or buildpack URI; "
            "platform absent/linux/windows; maps of 0..5 ids with "
            "absolute locations (below the scratch root, outside it, with dots and trailing slash); 14 spellings of the source location "
            "(nested, './', 'sub/..', trailing '/', '//', trailing '/.', names with ' : @ + ~ ..). The written package.toml is parsed with "
            "toml::Value (generic tree) and, separately, with libcnb's own type (reparse flag). non-trivial = a libcnb reference is resolved "
            "or refused, or a relative path containing '..' is rewritten; distinct = distinct case line",
    "trusted_base": ["Spec/PathDenote.lean: walk/denote (lexical POSIX resolution, '..' at the root stays), kindOf (RFC 3986 scheme), idOk",
                     "Model/UriSchemes.lean: the 304 scheme names of uriparse 0.6.4's registry, copied by hand-run script (modelled external)",
                     "uriparse keeps every other part of a URI text (userinfo, host, port without leading zeros, path, query, fragment)"],
    "assumptions": COMMON_ASSUME + ["packaged locations in the id -> path map are absolute and URI-safe (both callers absolutise the package dir)",
                                    "the source location is absolute and URI-safe",
                                    "symbolic links are not considered: the normaliser is lexical by design"],
}
