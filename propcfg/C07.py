from propcfg.common import COMMON_ASSUME

CFG = {
    "bin": "c07",
    "technique": "Lean 4 proof (mutual induction over the schema for decode-after-encode; induction over call sequences for the builders, with build() "
                 "as an observation inside the sequence lifted over histories; "
                 "decide on the regenerated schemas) + differential correspondence with Python tomllib as the independent parser",
    "level_text": "Theorems (all call sequences, all payloads, no bound): BuildPlanBuilder yields the split of the call sequence at `or` (first group "
                  "top level, others in order under `or`, empty groups kept); LaunchBuilder/ProcessBuilder keep call order, concatenate args, take the "
                  "last default / working directory; build() of the non-consuming builders (ProcessBuilder, LaunchBuilder: `build(&self)`) is an operation inside the "
                  "call sequence: for every sequence with any number of build() calls at any positions, every build() - not only the last - returns the "
                  "value of all calls made before it (launch_builder_every_build, launch_build_returns_everything_added_so_far), a later build() holds "
                  "the earlier one's content followed by what was added since, two build()s with nothing added between are equal "
                  "(launch_later_build_extends_earlier), the plural calls processes/labels/slices are the singular ones in order, Require::metadata called repeatedly keeps the last table "
                  "(datetime-free tables; require_metadata_calls_partial), and every built Launch is "
                  "written as a tree the specification's reader decodes to the value intended at that build(); for every value of every written type (launch.toml, build plan with arbitrary metadata trees, layer "
                  "content metadata, store.toml, exec.d output, package.toml) the tree the code's schema writes (renames, skip_serializing_if, custom "
                  "WorkingDirectory serialiser, as regenerated from /repo) is decoded by the specification's schema to exactly that value, and by libcnb's "
                  "own schema for the readable types. Tied to the code by the translator and by a differential run of the real builders and "
                  "write_toml_file / write_exec_d_program_output with the written bytes parsed by tomllib.",
    "level_note": "Trusted: Lean kernel; my transcription of the CNB formats (Spec/CnbSchemas.lean) and of what a call sequence means (Spec/Written.lean); "
                  "`encode`/`decode` as the meaning of a serde-derived type; translator; harness; tools/toml2tree.py (tomllib). Not modelled: the toml "
                  "crate's text printer - 'valid TOML 1.0' and string escaping are established per sampled document by tomllib accepting the bytes and "
                  "returning the model's tree, not by proof. HashMap collection for exec.d (last value per key) is modelled and sampled, not proved. write_toml_file's file handling (truncation) is not modelled: it is exercised by writing every document over pre-existing files. uriparse's grammar is modelled for the corpus' schemes only (uriRespell). build() inside a call sequence: the model's build reads the state and leaves it (mirrors `&self` + clone); that the real build() does the same is exactly what the launchseq differential run tests, on every built document. BuildPlanBuilder::build(self) consumes the builder and the builder is not Clone, so no call sequence can continue after its build(); no builder of libcnb-data implements Clone, so clone-before/after-build sequences do not exist in the API (BuildResultBuilder / DetectResultBuilder / LayerResultBuilder of libcnb are consuming too and write nothing by themselves).",
    "shrink": [(1, "|"), (1, ",")],
    "rule": "exhaustive: every BuildPlanBuilder call sequence over {provides, requires, or} of length <= 5 (quick) / 7 (thorough); every payload "
            "string (29: quotes, backslashes, control characters, newlines, Unicode incl. astral/combining/BOM, empty, TOML-syntax look-alikes) in "
            "every string position of launch.toml, build plan (name, metadata key and value), exec.d value, store metadata; all 9 layer type "
            "combinations x 3 metadata shapes. Then seeded sampling (2400 quick / 40000 thorough) over launch builder call sequences (<= 6 "
            "process/label/slice calls, <= 5 ProcessBuilder calls each incl. repeated default / working_directory), build plan sequences (<= 8 "
            "calls, nested metadata tables with every TOML value kind), layer metadata, store, exec.d pairs incl. duplicate keys, package.toml. "
            "Every document that goes through write_toml_file is written on a fresh path AND over a pre-existing file at the same path: 64 KiB "
            "longer garbage, a longer valid document of the same type with extra keys, the same document, a shorter one, an empty file (tag pre=); "
            "the tomllib reading must recover the constructed value in all six. package.toml URIs: 18 spellings delivered verbatim incl. 10 not in "
            "RFC 3986 normal form (upper-case host / unregistered scheme, dot segments, percent-encoded unreserved characters, trailing host dot, "
            "userinfo) + 7 spellings uriparse re-prints (known finding C07-F4, tagged uri_class=respelled), each once exhaustively and sampled. "
            "build() inside the call sequence (family launchseq; LaunchBuilder `B`, ProcessBuilder `b`; one more build() of each builder at the end; EVERY built "
            "Launch is written by write_toml_file to its own path, parsed by tomllib on its own and compared with the value of all calls made before that "
            "build()): exhaustive over all sequences of length <= 4 (quick) / 5 (thorough) over the 6-letter alphabet {process(web, default), process from a "
            "ProcessBuilder that is built, extended and built again, label, slice, build, processes([p, q])} - this holds add/build/add/build, build twice "
            "in a row, build first (empty document), build only - and all sequences of length <= 3 / 4 over {labels([..]), slices([..]), build, "
            "processes([])}, on fresh paths; then 600 (quick) / 8000 (thorough) sampled sequences of <= 10 calls (26% build, ProcessBuilder sessions of <= 5 "
            "calls with build() 1 in 6, plural calls 20%, payload strings as above), each on a fresh path and over one kind of pre-existing file in "
            "rotation. Require::new followed by 0, 1, 2, 3 metadata(..) calls (op `q`; 0 calls = requires(\"name\") through From<S>; the table given last must be the one "
            "written): 5 shapes x 4 plan contexts exhaustively + 200 / 3000 sampled plans of <= 5 calls with <= 3 metadata tables each. BuildPlanBuilder is consuming (`build(self)`, not Clone): a build() can only end its sequence, as enumerated above. "
            "non-trivial = a launchseq with >= 1 configuring call and >= 1 build() besides the final ones, a plan with >= 1 or() or metadata, a launch with >= 1 process, non-empty exec.d, any layer/store/package/payload case; "
            "distinct = distinct input line",
    "exhaustive": True,
    "trusted_base": ["Spec/CnbSchemas.lean + Spec/Written.lean are my reading of the CNB formats and of the builders' documented meaning "
                     "(incl. `callsBefore`: a build() of a non-consuming builder returns the value of all calls made before it, whatever build()s lie between)",
                     "Gen/Schemas.lean regenerated from the serde attributes (syn); tools/toml2tree.py (Python tomllib) is the independent TOML reader"],
    "assumptions": COMMON_ASSUME + ["serde's derived Serialize + toml::to_string print the tree `encode` describes (sampled with tomllib)",
                                    "HashMap collection keeps the last value per key (std)"],
}
