from propcfg.common import COMMON_ASSUME

CFG = {
    "bin": "c07",
    "technique": "Lean 4 proof (mutual induction over the schema for decode-after-encode; induction over call sequences for the builders; "
                 "decide on the regenerated schemas) + differential correspondence with Python tomllib as the independent parser",
    "level_text": "Theorems (all call sequences, all payloads, no bound): BuildPlanBuilder yields the split of the call sequence at `or` (first group "
                  "top level, others in order under `or`, empty groups kept); LaunchBuilder/ProcessBuilder keep call order, concatenate args, take the "
                  "last default / working directory; for every value of every written type (launch.toml, build plan with arbitrary metadata trees, layer "
                  "content metadata, store.toml, exec.d output, package.toml) the tree the code's schema writes (renames, skip_serializing_if, custom "
                  "WorkingDirectory serialiser, as regenerated from /repo) is decoded by the specification's schema to exactly that value, and by libcnb's "
                  "own schema for the readable types. Tied to the code by the translator and by a differential run of the real builders and "
                  "write_toml_file / write_exec_d_program_output with the written bytes parsed by tomllib.",
    "level_note": "Trusted: Lean kernel; my transcription of the CNB formats (Spec/CnbSchemas.lean) and of what a call sequence means (Spec/Written.lean); "
                  "`encode`/`decode` as the meaning of a serde-derived type; translator; harness; tools/toml2tree.py (tomllib). Not modelled: the toml "
                  "crate's text printer - 'valid TOML 1.0' and string escaping are established per sampled document by tomllib accepting the bytes and "
                  "returning the model's tree, not by proof. HashMap collection for exec.d (last value per key) is modelled and sampled, not proved. write_toml_file's file handling (truncation) is not modelled: it is exercised by writing every document over pre-existing files. uriparse's grammar is modelled for the corpus' schemes only (uriRespell).",
    "shrink": [(1, "|"), (1, ",")],
    "rule": "exhaustive: every BuildPlanBuilder call sequence over {provides, requires, or} of length <= 5 (quick) / 7 (thorough); every payload "
            "string (29: quotes, backslashes, control characters, newlines, Unicode incl. astral/combining/BOM, empty, TOML-syntax look-alikes) in "
            "every string position of launch.toml, build plan (name, metadata key and value), exec.d value, store metadata; all 9 layer type "
            "combinations x 3 metadata shapes. Then seeded sampling (2400 quick / 40000 thorough) over launch builder call sequences (<= 6 "
            "process/label/slice calls, <= 5 ProcessBuilder calls each incl. repeated default / working_directory), build plan sequences (<= 8 "
            "calls, nested metadata tables with every TOML value kind), layer metadata, store, exec.d pairs incl. duplicate keys, package.toml. "
            "Every document that goes through write_toml_file is written on a fresh path AND over a pre-existing file at the same path: 64 KiB "
            "longer garbage, a longer valid document of the same type with extra keys, the same document, a shorter one, an empty file (tag pre=); "
            "the tomllib reading must recover the constructed value in all six. package.toml URIs: 18 spellings delivered verbatim incl. 10 not in "
            "RFC 3986 normal form (upper-case host / unregistered scheme, dot segments, percent-encoded unreserved characters, trailing host dot, "
            "userinfo) + 7 spellings uriparse re-prints (known finding C07-F4, tagged uri_class=respelled), each once exhaustively and sampled. "
            "non-trivial = a plan with >= 1 or() or metadata, a launch with >= 1 process, non-empty exec.d, any layer/store/package/payload case; "
            "distinct = distinct input line",
    "exhaustive": True,
    "trusted_base": ["Spec/CnbSchemas.lean + Spec/Written.lean are my reading of the CNB formats and of the builders' documented meaning",
                     "Gen/Schemas.lean regenerated from the serde attributes (syn); tools/toml2tree.py (Python tomllib) is the independent TOML reader"],
    "assumptions": COMMON_ASSUME + ["serde's derived Serialize + toml::to_string print the tree `encode` describes (sampled with tomllib)",
                                    "HashMap collection keeps the last value per key (std)"],
}
