from propcfg.common import COMMON_ASSUME

CFG = {
    "gen_items": ['Tables/behIdx', 'Tables/writeSuffix', 'Tables/readSuffixTable', 'Tables/readNoExtension'],
    "bin": "c01",
    "technique": "Lean 4 proof (step theorem for every store state + invariant, lifted to every history by induction) + differential correspondence",
    "level_text": "Theorems: for every state of the layers directory satisfying the reachable-state invariant and every operation, the model of "
                  "cached_layer/uncached_layer/LayerRef::write_* meets Spec.stepOk (types exactly as requested, reported state and callback "
                  "log as the decision table says, restored = everything kept, empty = nothing left over, other layers untouched) and "
                  "re-establishes the invariant; hence for every history from the empty directory, of any length, over any names. "
                  "The same executable Spec.stepOk judges every step of the real code's histories.",
    "level_note": "Trusted: Lean kernel; Spec/LayerSpec (my reading of the property: classification + decision table); harness incl. its "
                  "lifecycle-restore simulation (fixed by the property text). Modelled not verified: std::fs, toml text of <layer>.toml "
                  "(compared as a document: types + metadata keys v,w), metadata drawn from a two-key domain, the ReplaceMetadata "
                  "re-entry bounded by fuel under the assumption that a replacement decodes as the requested type. I/O failures: C12; "
                  "permissions/symlinks inside layers: C11.",
    "shrink": [(1, ";")],
    "rule": "exhaustive: all histories of length <=2 (quick) / <=3 (thorough) over one layer name and a 25-operation alphabet (cached x metadata "
            "type x callback decisions incl. failure, uncached, write metadata/env/SBOM/exec.d/file, a metadata write with a value TOML cannot encode (rejected: must change nothing), restore); directed: populate-restore-request "
            "chains for every flag combination and callback decision; 'directed-dotted': two-layer histories over every ordered pair drawn from 11 "
            "name universes (dotted prefix a/a.tools/a.sbom, a/a.b/a.b.c, another layer's file stem a.sbom.cdx / a.toml.x, case a/A, one edit a/ab/a-b, "
            "blanks-punctuation-digits-non-ASCII, leading/trailing dots, phase-like build-foo/launch.x/store.build, 200-character names); 'twice': the "
            "same layer requested twice in one build with every pair of 7 request kinds (cached/uncached x flags x metadata type), then every writer "
            "through the reference handed out first, restore, keep; 'retry': a populated restored layer, a failing request (restored-layer callback "
            "fails / invalid-metadata callback fails on partial or empty metadata / metadata file not a document), the same request again, then "
            "every decision, write, restore, keep; 'chain': restore-keep chains over 3..6 (thorough ..9) restores with flags and metadata type "
            "changing along the chain and one writer per build; 'values': special metadata integers (0, -1, i64 min/max, 2^53), the empty metadata "
            "table vs none, contents from a pool (no bytes, non-UTF-8, 300 bytes, line breaks) in SBOMs / files / exec.d / env, carried over restores; "
            "'big': 17/21/33/65/129 (thorough: 15-22, 31-34, 63-66, 127-130) files in a layer / env entries over 5 scopes / exec.d programs / layers "
            "in one layers directory (quick <=65), populated, restored, kept or deleted, changed, restored; sampled: 3 000 (quick, <=14 ops) / 50 000 "
            "(thorough, <=40 ops) histories over three layer names (half the dotted-prefix universe, half any of the universes) with values from "
            "pools (metadata integers incl. special ones, up to 24 env entries with non-UTF-8 / '=' / suffix-like names and three process types, "
            "file names with blanks / leading dot / non-ASCII, exec.d names with dots, dashes, digits), incl. broken metadata files and missing "
            "exec.d sources; full snapshot of the layers directory after every step. Left out: layer names equal to another layer's <name>.toml / "
            "<name>.sbom.<fmt>.json (the two layers' files coincide), plain files named env.build / env.launch (write_env then fails half-way; the "
            "state an erroring write leaves is C12's), symlinks / hard links / read-only entries inside layers and a layer directory without its "
            "metadata file as a starting state (no operation of the model creates them; C11 covers deletion of such trees). "
            "non-trivial = a restore followed by a request on a layer that carried env, exec.d or SBOM data; distinct = distinct history",
    "trusted_base": ["Spec/LayerSpec.lean is my reading of C01 (classification of the pre-state, decision table, restored/empty clauses)",
                     "the lifecycle restore between builds is simulated by the harness exactly as the property text fixes it"],
    "assumptions": COMMON_ASSUME + ["a ReplaceMetadata answer decodes as the definition's metadata type (otherwise the real code recurses forever; outside the quantifier)"],
}
