from propcfg.common import COMMON_ASSUME

CFG = {
    "gen_items": ['Tables/behIdx', 'Tables/writeSuffix', 'Tables/readSuffixTable', 'Tables/readNoExtension'],
    "bin": "c01",
    "technique": "Lean 4 proof (step theorem for every store state + invariant, lifted to every history by induction) + differential correspondence",
    "level_text": "Theorems: for every state of the layers directory satisfying the reachable-state invariant and every operation, the model of "
                  "cached_layer/uncached_layer/LayerRef::write_* meets Spec.stepOk (types exactly as requested, reported state and callback "
                  "log as the decision table says, restored = everything kept, empty = nothing left over, other layers untouched) and "
                  "re-establishes the invariant; hence for every history from the empty directory, of any length, over any names. "
                  "The same executable Spec.stepOk judges every step of the real code's histories.",
    "level_note": "Trusted: Lean kernel; Spec/LayerSpec (my reading of the property: classification + decision table); harness incl. its "
                  "lifecycle-restore simulation (fixed by the property text). Modelled not verified: std::fs, toml text of <layer>.toml "
                  "(compared as a document: types + metadata keys v,w), metadata drawn from a two-key domain, the ReplaceMetadata "
                  "re-entry bounded by fuel under the assumption that a replacement decodes as the requested type. I/O failures: C12; "
                  "permissions/symlinks inside layers: C11.",
    "shrink": [(1, ";")],
    "rule": "exhaustive: all histories of length <=2 (quick) / <=3 (thorough) over one layer name and a 27-operation alphabet (cached x metadata "
            "type x callback decisions incl. failure, uncached, write metadata/env/SBOM/exec.d/file, restore); directed: populate-restore-request "
            "chains for every flag combination and callback decision; sampled: 3 000 (quick, <=14 ops) / 50 000 (thorough, <=40 ops) histories "
            "over three layer names that share a dotted prefix (a, a.tools, a.sbom), directed two-layer histories on such names, incl. broken metadata files and missing exec.d sources; full snapshot of the layers directory after every step. "
            "non-trivial = a restore followed by a request on a layer that carried env, exec.d or SBOM data; distinct = distinct history",
    "trusted_base": ["Spec/LayerSpec.lean is my reading of C01 (classification of the pre-state, decision table, restored/empty clauses)",
                     "the lifecycle restore between builds is simulated by the harness exactly as the property text fixes it"],
    "assumptions": COMMON_ASSUME + ["a ReplaceMetadata answer decodes as the definition's metadata type (otherwise the real code recurses forever; outside the quantifier)"],
}
