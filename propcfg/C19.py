from propcfg.common import COMMON_ASSUME

CFG = {
    "bin": "c19",
    "extra_bins": ["child"],
    "technique": "Lean 4 proof (fold/append induction for the writers; invariant + measure over a two-pipe transition system) "
                 "+ differential correspondence (all chunkings; scripted children under a watchdog) + translator fact (thread shape)",
    "level_text": "Theorems (all inputs, no bound). A: chunk_independent (same concatenation => same state and output, from any state), "
                  "output_spec (output = f of each marker-terminated segment, then f of the remainder iff non-empty, for every marker/f/chunking), "
                  "tee_full_input. B (model of command.rs): progress (no reachable non-final state is stuck, any capacity > 0, any script), "
                  "termination (measure decreases on every step), delivery (per stream: delivered ++ in-pipe ++ to-be-written = the script's bytes; "
                  "at return Output and writer hold them), sequential_variant_deadlocks (the statement discriminates), and the source-shape "
                  "obligation copier_threads_spawned_before_joined over the regenerated Gen.Sites.",
    "level_note": "PARTIAL for the streaming half: the model has a script-driven child, two bounded byte queues and two copier steps; real OS pipes, "
                  "the scheduler, thread spawning, writer errors and grandchildren holding the pipe are not exhibited by it. Deadlock freedom of the real "
                  "process is only sampled: scripted children (0..4 pipe buffers of 64 KiB per stream, one stream first / alternating / simultaneous / "
                  "with delays) through the real output_and_write_streams under a 60 s watchdog (a timeout is retried once alone, then reported as "
                  "observation `timeout`). The writer half (A) is a full proof on the model of write.rs, which is the code after the minimal D5 fix "
                  "(remainder flushed on drop/unwrap only when non-empty). Trusted: Lean kernel; Spec/Streaming.lean (my reading of the property); "
                  "translator (syn) for Gen.Sites; harness and driver glue.",
    # A cases are shrunk by dropping chunks; B scripts (items separated by ";") are generated small and are not shrunk: every
    # shrink candidate of a deadlocking script would cost two 60 s watchdog periods
    "shrink": [(3, ",")],
    "rule": "A exhaustive: every byte string over {marker, other} of length <= 9 (quick) / <= 10 (thorough) with marker='\\n' x every chunking into "
            "non-empty chunks, and length <= 7 / <= 8 with marker='a', other='\\n' (so mapped and line_mapped differ), prefix mapper add_prefix('> '), "
            "through mapped (dropped), mapped (unwrap), line_mapped (dropped), tee; then 15k / 200k seeded inputs (<= 60 bytes, 3 symbols, 4 markers, "
            "5 prefixes, empty chunks; half of them with short-writing targets). A with scripted targets (accept at most k in {1,2,3,7} bytes per call, alternate full/short, every n-th call Interrupted; first tee target / second / inner writer of the mapped writers, 12 configurations): every string of length <= 6 (7 thorough) x every chunking, fed with a write_all loop. B also with such writers handed to output_and_write_streams (6 configurations x 7 size pairs x seq/par). B: sizes {0,1,64Ki,64Ki+1,3*64Ki+17,4*64Ki} (thorough: 10 sizes) per stream in both orders, alternating, "
            "simultaneous (two writer threads in the child), with 5-20 ms delays, 60/400 small scripts (the driver runs the step model itself on "
            "those), 30/300 random larger scripts. non-trivial: A = the input holds a marker, is split into >= 2 chunks and a chunk boundary falls "
            "inside a segment; B = both streams non-empty or one stream larger than a pipe buffer; distinct = distinct input line",
    "exhaustive": True,
    "search_rounds": 1,
    "search_tier": "quick",
    "trusted_base": ["Spec/Streaming.lean is my reading of the property (split of the whole input at markers; per-stream bytes of a script)",
                     "Gen.Sites.copierEvents / copiersInOneScope regenerated from write_child_process_output (syn)",
                     "Model B abstracts OS pipes to bounded byte queues and threads to interleaved steps (partial claim)"],
    "assumptions": COMMON_ASSUME + [
        "Vec<u8> as io::Write appends; io::copy forwards what it reads, in order, until EOF; a pipe reports EOF once empty and all write ends are closed",
        "crossbeam scoped threads run concurrently once spawned; the OS schedules every runnable process/thread eventually (fairness)",
    ],
}
