from propcfg.common import COMMON_ASSUME

CFG = {
    "bin": "c19",
    "extra_bins": ["child"],
    "technique": "Lean 4 proof (fold/append induction for the writers, with flush() in the op alphabet and writers as call transducers so that "
                 "compositions compose; invariant + measure over a two-pipe transition system) + differential correspondence (all chunkings x flush "
                 "placements; scripted children under a watchdog, also into mapped/line_mapped/tee targets through both entry points) + translator "
                 "facts (thread shape, copier body = std::io::copy, no wait call reachable from spawn_and_write_streams) + children that outlive their "
                 "streams (return point observed as try_wait() at return)",
    "level_text": "Theorems (all inputs, no bound). A: chunk_independent (same concatenation => same state and output, from any state), "
                  "output_spec (output = f of each marker-terminated segment, then f of the remainder iff non-empty, for every marker/f/chunking), "
                  "tee_full_input (+ _short_writes), mapped_output_short_writes; with flush() as an operation: "
                  "mapped_output_independent_of_flushes (every interleaving of writes and flushes, every short-write script of the inner writer: "
                  "content = mappedOutput of the concatenated input), flushes_change_nothing (= the flush-free model; every flush forwarded), "
                  "tee_full_input_with_flushes, compositions_independent_of_flushes (tee into mapped, mapped into tee, mapped of mapped), "
                  "emitting_flush_violates_spec (the statement discriminates). B (model of command.rs): progress (no reachable non-final state is "
                  "stuck, any capacity > 0, any script), termination (measure decreases on every step), delivery (per stream: delivered ++ in-pipe ++ "
                  "to-be-written = the script's bytes; at return Output and writer hold them), sequential_variant_deadlocks (the statement "
                  "discriminates), and the source-shape obligations copier_threads_spawned_before_joined, copiers_are_plain_io_copy over the "
                  "regenerated Gen.Sites. Return point: spawn_returns_at_stream_close (every child history: once both streams are closed "
                  "spawn_and_write_streams has returned, before the exit if the exit comes later; output_and_write_streams has not), "
                  "spawn_does_not_return_before_close, waiting_variant_returns_only_after_exit (discriminates), "
                  "spawn_does_not_wait_for_exit (Gen.Sites.spawnWaitCalls = []).",
    "level_note": "PARTIAL for the streaming half: the model has a script-driven child, two bounded byte queues and two copier steps; real OS pipes, "
                  "the scheduler, thread spawning, writer errors and grandchildren holding the pipe are not exhibited by it. Deadlock freedom of the real "
                  "process is only sampled: scripted children (0..4 pipe buffers of 64 KiB per stream, one stream first / alternating / simultaneous / "
                  "with delays) through the real output_and_write_streams under a 60 s watchdog (a timeout is retried once alone, then reported as "
                  "observation `timeout`). How the copier chunks the child's bytes (and whether it calls anything but write on the supplied writer) is "
                  "not in model B: it is covered by the writer theorems (any chunking, any flushes => same content) and sampled end to end by the M "
                  "cases (lines arriving in pieces with 3-15 ms delays, lines longer than the 8 KiB copy buffer / the 64 KiB pipe, into line_mapped / "
                  "mapped / tee(line_mapped, Vec) targets, through output_and_write_streams and spawn_and_write_streams); a copier that is no longer a "
                  "plain std::io::copy call is reported by the translator as a broken tie. 'Returns once both streams close': the model has the "
                  "child's closes and exit as events and the call as the blocking statements it passes (join copier, join copier, [wait]); that the real "
                  "call returns at the close and not at the exit is sampled by the L cases (child closes fd 1 and 2 - together, or one and >= 20 ms later "
                  "the other with writes in between - and stays alive 1500 ms; judged: try_wait() == None right after spawn_and_write_streams returned; "
                  "also recorded: returned > 500 ms before the earliest exit). The oracle allows the parent 1000 ms between the second EOF and the return; "
                  "a machine stalled for longer than that would flip the flag (a failing case is re-run twice by ./check before it stands). output_and_write_streams returns the exit status, "
                  "i.e. after the exit, as documented: not judged. A child that never closes its streams before exiting, or lives < 1000 ms after, gives "
                  "nothing to judge (run=na). Grandchildren holding a pipe end open are not scripted. The writer half (A) is a full proof on the model of write.rs, "
                  "which is the code after the minimal D5 fix (remainder flushed on drop/unwrap only when non-empty); flush() = forward to the inner "
                  "writer(s), pending buffer kept. Trusted: Lean kernel; Spec/Streaming.lean (my reading of the property: a flush is not a write, so "
                  "like the split it must not show in the output); translator (syn) for Gen.Sites; harness and driver glue.",
    # A cases are shrunk by dropping ops (chunks and flushes); B/M scripts (items separated by ";") are generated small and are not shrunk: every
    # shrink candidate of a deadlocking script would cost two 60 s watchdog periods
    "shrink": [(3, ",")],
    "rule": "A exhaustive: every byte string over {marker, other} of length <= 9 (quick) / <= 10 (thorough) with marker='\\n' x every chunking into "
            "non-empty chunks, and length <= 7 / <= 8 with marker='a', other='\\n' (so mapped and line_mapped differ), prefix mapper add_prefix('> '), "
            "through mapped (dropped), mapped (unwrap), line_mapped (dropped), tee, tee(a, mapped(b)), mapped(tee(a, b)), mapped(line_mapped(w, '| ')); "
            "A with flush(): every string of length <= 4 (5 thorough) x every chunking x 0/1/2 flushes at each of the k+1 gaps (before the first "
            "write, between writes, after the last), length 5 (6) with 0/1 flush per gap; marker='a' length <= 3 (4) with 0/1/2; short-writing targets "
            "length <= 3 (4) with 0/1 x 12 configurations; then 15k / 200k seeded inputs (<= 60 bytes, 3 symbols, 4 markers, "
            "5 prefixes, empty chunks; half of them with short-writing targets, half of them with flushes at the start / after chunks (sometimes twice) / at the end). "
            "A with scripted targets (accept at most k in {1,2,3,7} bytes per call, alternate full/short, every n-th call Interrupted; first tee target / second / inner writer of the mapped writers, 12 configurations): every string of length <= 6 (7 thorough) x every chunking, fed with a write_all loop. B also with such writers handed to output_and_write_streams (6 configurations x 7 size pairs x seq/par). B: sizes {0,1,64Ki,64Ki+1,3*64Ki+17,4*64Ki} (thorough: 10 sizes) per stream in both orders, alternating, "
            "simultaneous (two writer threads in the child), with 5-20 ms delays, 60/400 small scripts (the driver runs the step model itself on "
            "those), 30/300 random larger scripts. M (targets v=Vec, l=line_mapped, m=mapped at 'a', t=tee(line_mapped, Vec); entry out=output_and_write_streams, "
            "spawn=spawn_and_write_streams+wait): a line in two pieces (5/15 ms apart) on both streams x 6 target pairs x 2 entries; a line in three pieces with its "
            "newline alone x 6 target pairs x seq/par; one line of 8193 / 20000 / 64Ki+1 / 140000 bytes (thorough: 8 sizes) written at once x 4 target pairs; both "
            "streams 70000-byte lines simultaneously; 20000-70000 bytes of 251-byte lines in one write; empty / newline-only output; 30/300 sampled scripts "
            "(pieces of 0..30000 bytes, newlines, 3 ms delays, random targets and entry). L (children outliving their streams; items xo/xe/xb = close "
            "stdout/stderr/both, z = stay alive; run together on one thread each, CNBV_C19_NO_LINGER=1 leaves them out): banner on both streams, close both, alive D ms; "
            "close stdout, write stderr 100 ms later, close stderr 20 ms later, alive D ms, and the mirror image, D in {300, 1500} (thorough: + 3000); "
            "the same through output_and_write_streams (2 cases, not judged); 370000 bytes over both streams then close both; silent child; close after "
            "200+100 ms; lifetime in two pauses of 800 ms; closes 50 ms apart without writes; two children whose streams stay open until exit; thorough: "
            "24 sampled (0-3 writes of 0..70000 bytes, close both / one then the other with a write in between, alive 1500/2000 ms, random targets). "
            "non-trivial: A = the input holds a marker and (it is split into >= 2 "
            "chunks with a chunk boundary inside a segment, or a flush arrives while a partial segment is pending); B = both streams non-empty or one stream "
            "larger than a pipe buffer; M = a mapped target whose stream has a line written in several pieces or longer than 8 KiB; L = spawn entry and the child stays alive "
            ">= 1000 ms after it closed both streams (the return clause is judged); distinct = distinct input line",
    "exhaustive": True,
    "search_rounds": 1,
    "search_tier": "quick",
    "trusted_base": ["Spec/Streaming.lean is my reading of the property (split of the whole input at markers; per-stream bytes of a script; "
                     "writtenBytes: the input of a call sequence is the concatenation of its writes, a flush contributes nothing and must not show in the output; "
                     "'returns once both streams close' = mustBeRunningAtReturn: a child alive >= 1000 ms after closing both streams is still running when the "
                     "call that hands it back returns - the 1000 ms allowance is the oracle's, not the property's)",
                     "Gen.Sites.spawnWaitCalls: wait / try_wait / wait_with_output calls (method or path) in spawn_and_write_streams and the functions of command.rs "
                     "it mentions, transitively (syn); a wait hidden in a macro body, in another file or behind a trait object is not seen there - the L cases observe it",
                     "the scripted child closes fd 1 / fd 2 with close(2) and sleeps; the harness reads try_wait() immediately after the call returns and "
                     "masks the flag (run=na) when the script does not guarantee 1000 ms of life after both closes",
                     "Gen.Sites.copierEvents / copiersInOneScope / copierBodies regenerated from write_child_process_output (syn); a copier closure that is "
                     "not exactly std::io::copy(reader, writer) is reported as TIE-BROKEN, not interpreted",
                     "Model B abstracts OS pipes to bounded byte queues and threads to interleaved steps (partial claim); the chunking / extra calls of the real "
                     "copier reach the proof only through the writer theorems (content independent of chunking and flushes) and the M samples",
                     "Model A: a wrapper writer is the sequence of calls it makes on what it wraps (write_all / flush), a bottom target is the calls it received; "
                     "MappedWrite::flush and TeeWrite::flush as read from write.rs (forward only) - tied to the code by the flush counts and contents of the A cases",
                     "for M and large B cases the driver's model observation is the proved closed form (finalOf, mappedOutput by output_spec / "
                     "mapped_output_independent_of_flushes), the step/call models themselves run on scripts of <= 64 bytes"],
    "assumptions": COMMON_ASSUME + [
        "Vec<u8> as io::Write appends and its flush is a no-op; io::copy forwards what it reads, in order, until EOF, in chunks of its choosing, calling only write on the writer; a pipe reports EOF once empty and all write ends are closed",
        "crossbeam scoped threads run concurrently once spawned; the OS schedules every runnable process/thread eventually (fairness)",
    ],
}
