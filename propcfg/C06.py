from propcfg.common import COMMON_ASSUME

CFG = {
    "bin": "c06",
    "extra_bins": ["tbp"],
    "technique": "Lean 4 proof (induction over the directory listing; target decision table; record construction, path texts as opaque values) + "
                 "differential correspondence on the context dumped by a real buildpack_main! executable",
    "level_text": "Theorems (every listing, every representability predicate, every variable combination): the platform environment "
                  "is exactly {(name, content) | regular file or symlink to one} with names and contents unchanged; a content that is "
                  "not a String is an error wherever it sits, never dropped; directories, links to directories, dangling links and a "
                  "missing env directory are tolerated; the target is built from exactly os/arch/variant/distro name/version with the "
                  "first missing or unrepresentable mandatory variable reported; with nothing forcing an error every context field "
                  "equals its input; errors only when forced. The directories are carried as the texts the platform wrote (opaque byte strings): "
                  "for every text given as <layers> argument and as CNB_BUILDPACK_DIR - absolute or relative, through links, with . / .. / doubled or "
                  "trailing slashes - the context holds that text unchanged (identity; nothing resolved, made absolute or normalised), app_dir is what "
                  "getcwd reports, and the spelling of the five supplied paths decides nothing else (context_paths_are_supplied_verbatim, "
                  "..._nothing_else). The clause 'unrepresentable => reported error' is proved for everything "
                  "except CNB_TARGET_ARCH_VARIANT (known finding D7, counterexample theorem). Partial: plan/store/descriptor decoding is "
                  "the toml crate's (carried as opaque values in the model, sampled by the correspondence).",
    "level_note": "Partial: the decoding of buildpack plan, store.toml and buildpack.toml (toml + serde) is not modelled - the model carries "
                  "the decoded documents as opaque values and the correspondence compares the real executable's dump with generated trees; "
                  "process environment, getcwd, read_dir and symlink resolution are the OS's. Paths: the model carries the supplied texts, never what they "
                  "denote; that a text leads to the intended directory is established by the harness (canonicalize of the text = canonicalize of the "
                  "object, else the case is refused), and app_dir is compared with the link-free absolute name of the app directory ($T/<app>), which is "
                  "what getcwd returns on Linux however the directory was entered - the property text names the app directory, not the spelling the "
                  "lifecycle used for chdir, which the process cannot see. The <platform> and <plan> arguments are in no context field (GenericPlatform "
                  "keeps only the environment); their spelling is exercised for its effect on what is read through them. Known finding D7 (variant not UTF-8 => None). "
                  "Trusted: Lean kernel; Spec/ContextSpec.lean (my reading of the property); harness (tbp.rs dump, c06.rs generator, its "
                  "TOML emitter and canonical form); core Lean's ByteArray.validateUTF8 as the spec's notion of 'representable'.",
    "shrink": [(3, ",")],
    "rule": "one process run of the test buildpack (detect or build) per case. Seeded stream: quick 3 000 / thorough 40 000 cases (+9 fixed head cases covering "
            "every target class; 1 case in 4 hands its paths over in other spellings, see paths): platform dir = missing / without env / env is a file / env is a dangling link / env is a link to a file / listing of 0..7 entries, "
            "names from 80 shapes (dots, leading / trailing dots and blanks, k8s ..data names, spaces, %, +, =, quotes, shell syntax, LF / CR / CRLF / BOM in the name, control "
            "characters, case variants, fullwidth and composed / decomposed look-alikes, names of the CNB_* inputs, UTF-8, non-UTF-8 bytes), kinds file, directory, empty "
            "directory, link to file (absolute, relative, link to link), link to a sibling entry, hard link (to a file outside, to a sibling), link to directory (also link "
            "to link), dangling link, link to itself; the env directory and / or the platform directory behind a symbolic link in 1 listing of 8; contents from 65 valid "
            "(empty, LF / CR / CRLF in every position, BOM first / alone / twice / inside / last, NUL, control characters, padding, boundary code points, shell / TOML / JSON / "
            "PEM text, 20 kB) and 24 invalid UTF-8 shapes (truncated BOM, UTF-16 with BOM, Latin-1, invalid after NUL / LF / CRLF; 1 listing in 8 holds invalid files); "
            "CNB_TARGET_* = all valid (pools of 24 / 20 / 16 / 18 / 19 values per variable: well-known OS / arch / variant / distro names, case variants, padded, "
            "LF / CRLF / BOM, empty, non-ASCII, look-alikes; variant unset in half) / one mandatory missing / one mandatory not UTF-8 / variant not UTF-8 (D7, tagged target=d7, about "
            "1 in 20) / random mix; buildpack plan with 0..3 entries, store present in 2/3, descriptor with optional fields, licenses, stacks, targets, sbom-formats and "
            "metadata: nested tables/arrays (depth <= 4) over strings (18 shapes), integers incl. i64 bounds, booleans, floats and datetimes (compared as text), written in "
            "inline / header / multi-line spellings. Directed families (quick ~1 800 cases): many = listings of 16,17,20,21,32,33,64,65,128,129,256,257 (thorough also 512,513,1000,"
            "1024,1025) entries created in shuffled order, all files / mixed kinds / one invalid file first, in the middle, last; bigcontent = contents of 4095..4097, 8191..8193, "
            "16384, 32768, 65535..65537, 131072 (thorough 262143..262145) bytes: ASCII, 3-byte characters shifted by 0/1/2 bytes, BOM first, LF / CRLF last, an invalid byte first / at 4096 / "
            "last, through file / link / relative link / hard link / link chain; longname = names of 1, 2, 100, 200, 254, 255 bytes (ASCII, 3-byte characters, non-UTF-8); names / "
            "contents = every pool element once as a file and once behind a link; correlated = 12 listings (case variants, prefix chains, NFC/NFD pair, names differing only "
            "in invalid bytes, same content everywhere, contents naming other entries, links named like their targets, several links and hard links to one sibling, k8s layout, "
            "every kind at once, no file at all) x env / platform directory plain or behind links; envdir = the 6 states of the env directory x 4 link placements; targetpool = every "
            "pool value of every variable with the others usual, all five equal, values of 255..257, 4095..4097, 65536 bytes, 300 (thorough 4 000) cross draws; decoy = 200 (2 000) "
            "cases with 1..6 other variables in the process environment (names one edit / case / prefix away from the inputs, CNB_STACK_ID, GOOS, PATH, ...; field 10); bigdoc = plan "
            "with n entries, store and descriptor metadata n keys wide, descriptor with n keywords / licenses / stacks / targets / distros / sbom-formats, n = 16,17,32,33,64,65,128,129,"
            "256,257 (thorough 1024,1025), and metadata 8 / 16 / 32 / 48 levels deep; layout = 451 (thorough 6 051) cases whose plan, store and descriptor are written by "
            "harness/src/tomllayout.rs: 17 directed styles x 3 and seeded random styles over header / inline / dotted-key tables, [[x]] / inline arrays of tables, implicit "
            "super-tables, shuffled and quoted keys, literal / multi-line / escaped strings, +/hex/octal/binary/underscored numbers, CRLF, BOM, comments, blank lines, indentation, "
            "odd spacing, no final newline, `entries = []` beside no key. paths (field 11; quick 645 / thorough 6 345 cases, and 1 case in 4 of the seeded stream) = "
            "the spelling of every path the platform hands over, per phase: the positional arguments (detect: platform, build plan; build: layers, platform, buildpack plan), "
            "CNB_BUILDPACK_DIR, and the path the working directory (= app dir) is entered by. Spellings ($T = temp root, n = the object's name): plain $T/n; a parent that is a "
            "link ($T/mnt/n with mnt -> ., $T/vol/0f3a/n with an absolute link, a chain of three); the object itself a link ($T/ln-x, also below a linked parent); $T/./n; "
            "$T/sub/../n; .. after a link ($T/sub/up/../../n); $T//n; //...; $T/.//mnt/./n; for directories also n/, n//, n/., n/../n, link + trailing slash, linked parent + .. + "
            "link + slash; relative to the working directory (not for the working directory itself): ../n, ./../n, ../mnt/n, ..//n, ../ln-x, a bare name and ./name (a link inside "
            "the app directory), ../<app>/../n, ../sub/../n, and for directories ../n/, ./name/, name/. - 18 absolute + 12 relative spellings of a directory, 12 + 9 of the plan "
            "file. Bounded-exhaustive part: every spelling of each path with the other four plain, and all five paths in the same spelling, for both phases (279 cases); every "
            "state of the platform directory (missing / no env / env a file / dangling / link to file / empty / listing) x 4 link placements x plain and spelled layers (56); PWD / "
            "OLDPWD in the process environment naming the app directory differently or another directory (10); then 300 (thorough 6 000) seeded combinations over all five paths on "
            "base cases of every platform state. The dump records app_dir, buildpack_dir, layers_dir verbatim (hex of the OsStr bytes; only the temp root is replaced by $T, wherever "
            "it occurs); the driver compares layers_dir and buildpack_dir with the supplied text byte for byte and app_dir with $T/<app>. The harness refuses a case whose text does "
            "not lead to the object. Not covered (outside the quantifier): FIFOs / sockets / devices in env, unreadable files (the harness "
            "runs as root), NUL in variable values (the OS refuses), contents above 256 KiB (the driver's list-based hex decoding); path texts that are not UTF-8 (open question, kept out of the default stream: 6 cases behind VERIF_C06_NONUTF8_PATHS=1 - a <layers> argument that is "
            "not UTF-8 makes std::env::args panic, exit 101; such a CNB_BUILDPACK_DIR ends the process with exit 254; neither passes through on_error; a non-UTF-8 app dir is carried "
            "unchanged) or longer "
            "than PATH_MAX, a relative CNB_BUILDPACK_DIR combined with a relative argv[0] (the executable is always started by its plain absolute path), paths derived from "
            "layers_dir (layer directories, store / launch / SBOM targets: not in the dump), a working directory that was removed or is unreadable. non-trivial = the platform "
            "dir lists at least one entry, or some supplied value is unrepresentable, or the case belongs to a directed family, or some supplied path is not written in its "
            "plain absolute form; distinct = distinct input line",
    "trusted_base": ["Spec/ContextSpec.lean is my reading of the property text",
                     "harness/src/bin/tbp.rs (context dump) and c06.rs (generator, TOML emitter, canonical form of TOML trees)",
                     "c06.rs scaffold + check that every path text leads to its object (fs::canonicalize on both sides); the substitution $T <-> temp root on the way in and out; "
                     "getcwd names the working directory by its link-free absolute path (Linux), which is what the driver expects for app_dir",
                     "the model's utf8Valid and core Lean's ByteArray.validateUTF8 are cross-checked against Rust's str::from_utf8 on every case"],
    "assumptions": COMMON_ASSUME + ["names in a directory listing are pairwise distinct",
                                    "toml/serde decode buildpack plan, store and descriptor as sampled (not modelled)"],
}
