from propcfg.common import COMMON_ASSUME

CFG = {
    "bin": "c06",
    "extra_bins": ["tbp"],
    "technique": "Lean 4 proof (induction over the directory listing; target decision table; record construction) + "
                 "differential correspondence on the context dumped by a real buildpack_main! executable",
    "level_text": "Theorems (every listing, every representability predicate, every variable combination): the platform environment "
                  "is exactly {(name, content) | regular file or symlink to one} with names and contents unchanged; a content that is "
                  "not a String is an error wherever it sits, never dropped; directories, links to directories, dangling links and a "
                  "missing env directory are tolerated; the target is built from exactly os/arch/variant/distro name/version with the "
                  "first missing or unrepresentable mandatory variable reported; with nothing forcing an error every context field "
                  "equals its input; errors only when forced. The clause 'unrepresentable => reported error' is proved for everything "
                  "except CNB_TARGET_ARCH_VARIANT (known finding D7, counterexample theorem). Partial: plan/store/descriptor decoding is "
                  "the toml crate's (carried as opaque values in the model, sampled by the correspondence).",
    "level_note": "Partial: the decoding of buildpack plan, store.toml and buildpack.toml (toml + serde) is not modelled - the model carries "
                  "the decoded documents as opaque values and the correspondence compares the real executable's dump with generated trees; "
                  "process environment, getcwd, read_dir and symlink resolution are the OS's. Known finding D7 (variant not UTF-8 => None). "
                  "Trusted: Lean kernel; Spec/ContextSpec.lean (my reading of the property); harness (tbp.rs dump, c06.rs generator, its "
                  "TOML emitter and canonical form); core Lean's ByteArray.validateUTF8 as the spec's notion of 'representable'.",
    "shrink": [(3, ",")],
    "rule": "quick 2 000 / thorough 40 000 seeded cases (+9 fixed head cases covering every target class), each one process run of the "
            "test buildpack as detect or build: platform dir = missing / without env / env is a file / listing of 0..7 entries with names "
            "from 19 shapes (dots, spaces, UTF-8, non-UTF-8 bytes, newline, '=') and kinds file, directory, link to file, link to directory, "
            "dangling link; contents from 14 valid (empty, newlines, NUL, boundary code points, 20 kB) and 12 invalid UTF-8 shapes (1 listing "
            "in 8 holds invalid files); CNB_TARGET_* = all valid (variant unset in half) / one mandatory missing / one mandatory not UTF-8 / "
            "variant not UTF-8 (D7, tagged target=d7, about 1 in 20) / random mix; buildpack plan with 0..3 entries, store present in 2/3, "
            "descriptor with optional fields, licenses, stacks, targets, sbom-formats and metadata: nested tables/arrays (depth <= 4) over "
            "strings (18 shapes), integers incl. i64 bounds, booleans, floats and datetimes (compared as text), written in inline / header / "
            "multi-line spellings. non-trivial = the platform dir lists at least one entry or some supplied value is unrepresentable; "
            "distinct = distinct input line",
    "trusted_base": ["Spec/ContextSpec.lean is my reading of the property text",
                     "harness/src/bin/tbp.rs (context dump) and c06.rs (generator, TOML emitter, canonical form of TOML trees)",
                     "the model's utf8Valid and core Lean's ByteArray.validateUTF8 are cross-checked against Rust's str::from_utf8 on every case"],
    "assumptions": COMMON_ASSUME + ["names in a directory listing are pairwise distinct",
                                    "toml/serde decode buildpack plan, store and descriptor as sampled (not modelled)"],
}
