from propcfg.common import COMMON_ASSUME

CFG = {
    "bin": "c06",
    "extra_bins": ["tbp"],
    "technique": "Lean 4 proof (induction over the directory listing; target decision table; record construction) + "
                 "differential correspondence on the context dumped by a real buildpack_main! executable",
    "level_text": "Theorems (every listing, every representability predicate, every variable combination): the platform environment "
                  "is exactly {(name, content) | regular file or symlink to one} with names and contents unchanged; a content that is "
                  "not a String is an error wherever it sits, never dropped; directories, links to directories, dangling links and a "
                  "missing env directory are tolerated; the target is built from exactly os/arch/variant/distro name/version with the "
                  "first missing or unrepresentable mandatory variable reported; with nothing forcing an error every context field "
                  "equals its input; errors only when forced. The clause 'unrepresentable => reported error' is proved for everything "
                  "except CNB_TARGET_ARCH_VARIANT (known finding D7, counterexample theorem). Partial: plan/store/descriptor decoding is "
                  "the toml crate's (carried as opaque values in the model, sampled by the correspondence).",
    "level_note": "Partial: the decoding of buildpack plan, store.toml and buildpack.toml (toml + serde) is not modelled - the model carries "
                  "the decoded documents as opaque values and the correspondence compares the real executable's dump with generated trees; "
                  "process environment, getcwd, read_dir and symlink resolution are the OS's. Known finding D7 (variant not UTF-8 => None). "
                  "Trusted: Lean kernel; Spec/ContextSpec.lean (my reading of the property); harness (tbp.rs dump, c06.rs generator, its "
                  "TOML emitter and canonical form); core Lean's ByteArray.validateUTF8 as the spec's notion of 'representable'.",
    "shrink": [(3, ",")],
    "rule": "one process run of the test buildpack (detect or build) per case. Seeded stream: quick 3 000 / thorough 40 000 cases (+9 fixed head cases covering "
            "every target class): platform dir = missing / without env / env is a file / env is a dangling link / env is a link to a file / listing of 0..7 entries, "
            "names from 80 shapes (dots, leading / trailing dots and blanks, k8s ..data names, spaces, %, +, =, quotes, shell syntax, LF / CR / CRLF / BOM in the name, control "
            "characters, case variants, fullwidth and composed / decomposed look-alikes, names of the CNB_* inputs, UTF-8, non-UTF-8 bytes), kinds file, directory, empty "
            "directory, link to file (absolute, relative, link to link), link to a sibling entry, hard link (to a file outside, to a sibling), link to directory (also link "
            "to link), dangling link, link to itself; the env directory and / or the platform directory behind a symbolic link in 1 listing of 8; contents from 65 valid "
            "(empty, LF / CR / CRLF in every position, BOM first / alone / twice / inside / last, NUL, control characters, padding, boundary code points, shell / TOML / JSON / "
            "PEM text, 20 kB) and 24 invalid UTF-8 shapes (truncated BOM, UTF-16 with BOM, Latin-1, invalid after NUL / LF / CRLF; 1 listing in 8 holds invalid files); "
            "CNB_TARGET_* = all valid (pools of 24 / 20 / 16 / 18 / 19 values per variable: well-known OS / arch / variant / distro names, case variants, padded, "
            "LF / CRLF / BOM, empty, non-ASCII, look-alikes; variant unset in half) / one mandatory missing / one mandatory not UTF-8 / variant not UTF-8 (D7, tagged target=d7, about "
            "1 in 20) / random mix; buildpack plan with 0..3 entries, store present in 2/3, descriptor with optional fields, licenses, stacks, targets, sbom-formats and "
            "metadata: nested tables/arrays (depth <= 4) over strings (18 shapes), integers incl. i64 bounds, booleans, floats and datetimes (compared as text), written in "
            "inline / header / multi-line spellings. Directed families (quick ~1 800 cases): many = listings of 16,17,20,21,32,33,64,65,128,129,256,257 (thorough also 512,513,1000,"
            "1024,1025) entries created in shuffled order, all files / mixed kinds / one invalid file first, in the middle, last; bigcontent = contents of 4095..4097, 8191..8193, "
            "16384, 32768, 65535..65537, 131072 (thorough 262143..262145) bytes: ASCII, 3-byte characters shifted by 0/1/2 bytes, BOM first, LF / CRLF last, an invalid byte first / at 4096 / "
            "last, through file / link / relative link / hard link / link chain; longname = names of 1, 2, 100, 200, 254, 255 bytes (ASCII, 3-byte characters, non-UTF-8); names / "
            "contents = every pool element once as a file and once behind a link; correlated = 12 listings (case variants, prefix chains, NFC/NFD pair, names differing only "
            "in invalid bytes, same content everywhere, contents naming other entries, links named like their targets, several links and hard links to one sibling, k8s layout, "
            "every kind at once, no file at all) x env / platform directory plain or behind links; envdir = the 6 states of the env directory x 4 link placements; targetpool = every "
            "pool value of every variable with the others usual, all five equal, values of 255..257, 4095..4097, 65536 bytes, 300 (thorough 4 000) cross draws; decoy = 200 (2 000) "
            "cases with 1..6 other variables in the process environment (names one edit / case / prefix away from the inputs, CNB_STACK_ID, GOOS, PATH, ...; field 10); bigdoc = plan "
            "with n entries, store and descriptor metadata n keys wide, descriptor with n keywords / licenses / stacks / targets / distros / sbom-formats, n = 16,17,32,33,64,65,128,129,"
            "256,257 (thorough 1024,1025), and metadata 8 / 16 / 32 / 48 levels deep; layout = 451 (thorough 6 051) cases whose plan, store and descriptor are written by "
            "harness/src/tomllayout.rs: 17 directed styles x 3 and seeded random styles over header / inline / dotted-key tables, [[x]] / inline arrays of tables, implicit "
            "super-tables, shuffled and quoted keys, literal / multi-line / escaped strings, +/hex/octal/binary/underscored numbers, CRLF, BOM, comments, blank lines, indentation, "
            "odd spacing, no final newline, `entries = []` beside no key. Not covered (outside the quantifier): FIFOs / sockets / devices in env, unreadable files (the harness "
            "runs as root), NUL in variable values (the OS refuses), contents above 256 KiB (the driver's list-based hex decoding). non-trivial = the platform dir lists at least one "
            "entry, or some supplied value is unrepresentable, or the case belongs to a directed family; distinct = distinct input line",
    "trusted_base": ["Spec/ContextSpec.lean is my reading of the property text",
                     "harness/src/bin/tbp.rs (context dump) and c06.rs (generator, TOML emitter, canonical form of TOML trees)",
                     "the model's utf8Valid and core Lean's ByteArray.validateUTF8 are cross-checked against Rust's str::from_utf8 on every case"],
    "assumptions": COMMON_ASSUME + ["names in a directory listing are pairwise distinct",
                                    "toml/serde decode buildpack plan, store and descriptor as sampled (not modelled)"],
}
