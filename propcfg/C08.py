from propcfg.common import COMMON_ASSUME

CFG = {
    "bin": "c08",
    "technique": "Lean 4 proof (induction over the schema / the defect derivation; decide on the regenerated schemas) + differential correspondence",
    "level_text": "Theorems (all documents, no bound): under a schema whose struct nodes all deny unknown fields, a document with an "
                  "undefined key at any struct-level path, a missing required key or a value of the wrong kind is rejected; omitted optional "
                  "keys take the default; accepted documents decode to exactly the document's values; order => composite, no order => component, "
                  "order with targets/stacks => rejected (any metadata instantiation). The schemas regenerated from the serde attributes in /repo "
                  "(Gen/Schemas.lean) are strict and agree key by key (kind, requiredness, default, variant order) with the hand-transcribed CNB "
                  "schemas (decide), hence decode every document identically. Tied to the code by the translator and by a differential run of the "
                  "real toml::from_str::<T>.",
    "level_note": "Trusted: Lean kernel; my transcription of the CNB formats (Spec/CnbSchemas.lean); the generic reader `decode` as the meaning of a "
                  "serde-derived type (Base/Schema.lean; sampled by the correspondence); translator; harness. Modelled not verified: serde derive, "
                  "the toml crate's text parser (documents reach it as text produced by toml::to_string), uriparse, the identifier grammars (C09). "
                  "Known finding C08-F2 (serde leniency): see FullStatementKinds / serde_leniency_counterexample. "
                  "Known finding C08-F5 (datetime as metadata table): a datetime where the free-form `metadata` table is expected is accepted as the one-key table "
                  "{ $__toml_private_datetime = text } (the toml crate's private datetime encoding, same root as C07-F3); the driver gives the verdict "
                  "wrong-kind-accepted:datetime-as-table only when that is the sole deviation (Driver/C08.lean isDatetimeAsTable: the document with exactly those "
                  "datetimes replaced conforms and the result equals the specification's reading of it); a datetime accepted anywhere else stays a violation.",
    "shrink": [],
    "rule": "fields = type, document as a value tree, optionally the TOML text (hex) in which the tree is handed to the real parser. Exhaustive over 16 base documents "
            "(maximal component / composite buildpack.toml, buildpack plan, launch.toml, layer metadata, store.toml, package.toml, a target; and the empty documents) x 10 libcnb "
            "types: every single-point mutation (2 undefined keys in every table incl. free-form ones, delete every key, delete every array element, retype every value 2-4 ways, "
            "add order/targets/stacks empty and non-empty; every `uri` value of package.toml replaced by 16 valid spellings not in RFC 3986 normal form that must come back verbatim, "
            "12 spellings uriparse re-prints at parse time (known finding C08-F4) and 10 invalid references; a struct as a positional array, a string as "
            "{ s = {} } / { s = [] } / { s = \"x\" }), every key subset of every table outside metadata, and every single-point mutation of 10 (quick) / 120 "
            "(thorough) seeded subset documents; thorough adds sampled two-point mutations. Directed families on the maximal documents: the undefined key with a value of every "
            "TOML kind (11) in every table; undefined keys spelled like the table's own keys (other case, -/_ swapped or dropped, camelCase, plural / singular, padded with blanks / LF / "
            "BOM, fullwidth, Cyrillic look-alike first letter, dotted) and 37 names defined elsewhere in the formats or odd (empty, Unicode, `a.b`); every defined key renamed to a close spelling (other case, -/_ swapped or dropped, camelCase, plural / singular: the key itself missing, an undefined one present); every value retyped to 23 more values "
            "(floats incl. 0.10 / -0.0 / inf / nan / 1e300 / 5e-324 where strings are expected, i64 min / max / 2^53, four datetime forms, filled arrays and tables; a datetime in place of "
            "the `metadata` table is known finding C08-F5); value pools for every string by "
            "its key (os, arch, variant, api, version, distro version, id, stack id, process type, working-dir, sbom-format: well-known values, case variants, padded, reserved words, boundary "
            "numbers) plus 48 shapes any string may take (empty, blanks, LF / CRLF, BOM, NUL, composed / decomposed, fullwidth, TOML-looking text such as `# not a comment`, `[table]`, `key = value`, triple quotes, backslashes, 255 / 256 / 257 / 4096 characters; thorough "
            "65535..65537); the empty value of every node's kind (optional key present but empty / at its default); duplicated array elements. Layouts (harness/src/tomllayout.rs; the text is "
            "checked to denote the tree, then read by toml::from_str::<T> and by libcnb-common's read_toml_file::<T> from a file, which must agree): each base document in 17 directed styles "
            "and 40 (thorough 300) seeded random styles over header / inline / dotted-key tables, [[x]] / inline arrays of tables, implicit super-tables, shuffled and quoted keys, literal / "
            "multi-line / escaped strings, other number spellings, CRLF, BOM, comments, blank lines, indentation, odd spacing, no final newline; every key-subset document and every "
            "single-point mutation (value pools and added retypes 1 in 4, key spellings 1 in 2) in 1 (thorough 4) random style. Big documents: n processes / labels / slices / plan entries / "
            "order entries (one with n groups) / targets (one with n distros) / stacks / keywords / licenses / sbom-formats / dependencies and metadata n keys wide and up to 40 levels deep, "
            "n = 16,17,20,21,32,33,64,65,128,129,256,257 (thorough 512,513,1000,1024,1025), valid (toml crate's spelling and 2-3 layouts) and, for n = 17,33,65,257 (thorough: all), an "
            "undefined key / a deleted key / a retyped value in the first, middle and last element of every n-element array. non-trivial = anything but an unmodified base "
            "document; distinct = distinct (type, document, text)",
    "exhaustive": True,
    "trusted_base": ["Spec/CnbSchemas.lean is my reading of the CNB specification (keys, kinds, required/optional, defaults)",
                     "Gen/Schemas.lean regenerated from #[derive(Serialize, Deserialize)] items and #[serde(..)] attributes (syn)"],
    "assumptions": COMMON_ASSUME + ["serde's derived Deserialize behaves as the generic reader `decode` on the regenerated schema",
                                    "known finding C08-F5: toml::Table also reads the toml crate's private one-key encoding of a datetime, so `metadata = <datetime>` is accepted (recorded, not repaired)",
                                    "toml::to_string followed by toml::from_str is faithful on value trees (the documents are generated as trees); for cases that carry their text the harness checks with toml::from_str::<Value> that the text denotes the tree"],
}
