from propcfg.common import COMMON_ASSUME

CFG = {
    "bin": "c08",
    "technique": "Lean 4 proof (induction over the schema / the defect derivation; decide on the regenerated schemas) + differential correspondence",
    "level_text": "Theorems (all documents, no bound): under a schema whose struct nodes all deny unknown fields, a document with an "
                  "undefined key at any struct-level path, a missing required key or a value of the wrong kind is rejected; omitted optional "
                  "keys take the default; accepted documents decode to exactly the document's values; order => composite, no order => component, "
                  "order with targets/stacks => rejected (any metadata instantiation). The schemas regenerated from the serde attributes in /repo "
                  "(Gen/Schemas.lean) are strict and agree key by key (kind, requiredness, default, variant order) with the hand-transcribed CNB "
                  "schemas (decide), hence decode every document identically. Tied to the code by the translator and by a differential run of the "
                  "real toml::from_str::<T>.",
    "level_note": "Trusted: Lean kernel; my transcription of the CNB formats (Spec/CnbSchemas.lean); the generic reader `decode` as the meaning of a "
                  "serde-derived type (Base/Schema.lean; sampled by the correspondence); translator; harness. Modelled not verified: serde derive, "
                  "the toml crate's text parser (documents reach it as text produced by toml::to_string), uriparse, the identifier grammars (C09). "
                  "Known finding C08-F2 (serde leniency): see FullStatementKinds / serde_leniency_counterexample.",
    "shrink": [],
    "rule": "exhaustive over 16 base documents (maximal component / composite buildpack.toml, buildpack plan, launch.toml, layer metadata, "
            "store.toml, package.toml, a target; and the empty documents) x 10 libcnb types: every single-point mutation (2 undefined keys in every "
            "table incl. free-form ones, delete every key, delete every array element, retype every value 2-4 ways, add order/targets/stacks "
            "empty and non-empty; every `uri` value of package.toml replaced by 16 valid spellings not in RFC 3986 normal form that must come back verbatim, "
            "12 spellings uriparse re-prints at parse time (known finding C08-F4) and 10 invalid references; a struct as a positional array, a string as "
            "{ s = {} } / { s = [] } / { s = \"x\" }), every key subset of every table outside metadata, and every single-point mutation of 10 (quick) / 120 "
            "(thorough) seeded subset documents; thorough adds sampled two-point mutations. non-trivial = anything but an unmodified base "
            "document; distinct = distinct (type, document)",
    "exhaustive": True,
    "trusted_base": ["Spec/CnbSchemas.lean is my reading of the CNB specification (keys, kinds, required/optional, defaults)",
                     "Gen/Schemas.lean regenerated from #[derive(Serialize, Deserialize)] items and #[serde(..)] attributes (syn)"],
    "assumptions": COMMON_ASSUME + ["serde's derived Deserialize behaves as the generic reader `decode` on the regenerated schema",
                                    "toml::to_string followed by toml::from_str is faithful on value trees (the documents are generated as trees)"],
}
