from propcfg.common import COMMON_ASSUME

CFG = {
    "gen_items": ['Tables/behIdx', 'Tables/writeSuffix', 'Tables/readSuffixTable', 'Tables/readNoExtension'],
    "bin": "c03",
    "technique": "Lean 4 proof (layout = spec files, overwrite, frame, read∘write round trip) + differential correspondence",
    "level_text": "Theorems (all environments, names, values, old directory contents): write_to_layer_dir produces exactly the CNB "
                  "files, leaves nothing of an earlier environment, touches no other entry; read_from_layer_dir of the result "
                  "applies identically for every scope and starting env; suffix-less = override, unknown suffixes ignored. "
                  "Suffix tables regenerated from the source; behaviour tied by writing/reading real directories.",
    "level_note": "Trusted: Lean kernel; Spec/EnvLayout (my reading of the CNB layout); translator; harness. Modelled not verified: "
                  "std::fs, Path::file_stem/extension (modelled as rsplit at the last dot with the leading-dot rule), read_dir order "
                  "(irrelevant when no two files designate one (behaviour, variable) — such directories are outside the generator).",
    "shrink": [(2, ","), (1, ","), (3, ",")],
    "rule": "W cases: write old env, write new env into the same layer dir (with unrelated extra files), snapshot, read back, probe apply() "
            "for 5 scopes x 2 starting envs. exhaustive: every single entry over 5 scopes x 5 behaviours x 3 names, on an empty and on a "
            "fully populated old env (thorough: + all pairs on one name over scope^2 x behaviour^2); sampled: 5 000 / 100 000 (old,new) pairs "
            "+ correlated pairs (new = old minus a scope / entries / changed values) + every way of dropping scopes from a fully populated env; 7 probe scopes incl. process types named build/launch; "
            "+ unrelated directories of the layer named like / near the env directories (env.d, env.local, env.launch.old, ENV, .env, exec.d ... empty or holding a file) beside writes into every scope; "
            "+ big environments (17..129 quick / 16..257 thorough variables with 1-3 behaviours each in one scope, over an old env that is disjoint / overlapping / identical); "
            "with names incl. dots, leading dot, trailing dot, '..', space, non-UTF-8. R cases: 2 000 / 30 000 spec-shaped env directories "
            "with arbitrary file names (known/unknown/empty/non-UTF-8 extensions, leading dots, nested dots). "
            "non-trivial = W with non-empty old and new env, or R with at least one directory; distinct = distinct input line",
    "trusted_base": ["Spec/EnvLayout.lean is my reading of the CNB env directory layout",
                     "Gen.writeSuffix / Gen.readSuffixTable / Gen.readNoExtension regenerated from layer_env.rs"],
    "assumptions": COMMON_ASSUME + ["process type names are UTF-8 and do not collide with env.launch file names",
                                    "no symlinks at env*/ paths (not modelled)"],
}
