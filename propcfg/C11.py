from propcfg.common import COMMON_ASSUME

CFG = {
    "bin": "c11",
    "technique": "Lean 4 proof (frame and completeness of the recursive removal by induction over its depth budget, for every "
                 "file-system state with symlinks, hard links and modes; composed through delete_layer and the three public requests) + "
                 "differential correspondence on generated trees (symlinks, hard links, modes) as root and as uid 65534",
    "level_text": "Theorems, for every file-system state (any depth, any modes, links to files/directories inside or outside, relative/"
                  "absolute, dangling, cyclic, the layer path itself a link; hard links: names inside the layer sharing an inode with files "
                  "outside it, with each other, outside names of files inside), every layer name, root and non-root, success or failure: "
                  "delete_layer and uncached_layer / cached_layer+DeleteLayer / handle_layer+Recreate leave every path outside "
                  "<layers>/<name>, <name>.toml and the layer's SBOM files with exactly the node it had (kind, mode, content, link target; "
                  "for a file with several names: inode, mode, content - the mode belongs to the inode in the model, chmod through one name "
                  "shows under all, unlink takes one name away and nothing else: unlink_keeps_other_names); "
                  "on success no own path remains / a fresh empty layer stands in its place. No condition on the layer path: <layers>/<name> may be "
                  "a directory, a symlink, a regular file with one name or with a second name outside the layer, or absent. The model is "
                  "remove_dir_recursively as repaired for D4 and D8 (a path that is not a directory - a symlink, a regular file - is unlinked "
                  "as such, never chmod-ed, never descended into); d4_counterexample shows the unrepaired recursion chmod-ing and emptying the "
                  "link's target, d8_counterexample the code between the two repairs chmod-ing a top-level regular file's shared inode to 0777 "
                  "(the outside name's mode changes), d8_repaired the repaired step leaving the other name untouched. The same executable Spec.Frame.judgeRequest judges "
                  "the before/after whole-root snapshots of the real code.",
    "level_note": "Partial for non-root: the theorems hold for both values of `root`, but the kernel's permission semantics are modelled "
                  "coarsely (owner bits; search on directories walked through, read to list, write+search on the parent to add/remove an "
                  "entry; the caller owns every node, so chmod is always allowed); ACLs, sticky bits, mount points, other owners are out. "
                  "Hypotheses: the layers directory is a real directory; completeness needs the state to be a tree (snapshots are). "
                  "Trusted: Lean kernel; Spec/Frame.lean (my reading of C11: own paths, Frame, Gone, Recreated); harness and its snapshot. "
                  "Modelled not verified: std::fs / the kernel's path resolution (40 link expansions, nofollow on the last component for "
                  "lstat/unlink/rmdir/mkdir, d_type of read_dir entries), umask 022, the TOML text of the target layer's <name>.toml "
                  "(recorded as a token naming the decoded document). A <name>.toml that is itself a symlink is outside the model "
                  "(fs::write through it is `unsupported`) and outside the property's quantifier (layer trees). Hard links: an in-place "
                  "fs::write through a name of a shared inode is `unsupported` in the model as well (the requests write <name>.toml only where "
                  "no file stands); a <name>.toml that is a second name of an outside file is not generated (the token recording cannot "
                  "show one content under two names) - the layer's SBOM file as such a name is. The link count of a regular file is compared "
                  "between model and implementation (snapshot field n<count>) but is not part of the node the specification compares; all "
                  "names of a generated inode lie inside the snapshot root, one file system (tmpfs/ext4, no cross-device names).",
    "shrink": [(3, ";")],
    "rule": "directed: every top-level shape (real directory, link to an outside directory rel/abs, to a read-only / non-searchable outside "
            "directory, to an outside file, to a sibling layer, dangling, self-loop, a regular file of mode 644/444/000, a regular file that is "
            "a second name of a read-only canary file (hard link), absent) x metadata-file state (typed, absent, empty, "
            "other metadata, not a document) and five hand-made contents (read-only nested, non-searchable nested, outside links, cycles + "
            "dangling, empty), for each of the 3 APIs as root and as uid 65534, the latter also with layers-directory modes 555/300/600/000/700; "
            "directed hard links and top-level files (first in the stream, 96 cases): for each API x user x file mode 444/400/000/644/755 a layer whose names share "
            "inodes with a canary file (two inside names, one in a read-only directory), a file in a sibling layer, a root-level file, files in a "
            "read-only and in a non-searchable canary directory, with each other (inside<->inside), and files of the layer that have a second "
            "name in the canary tree / a sibling layer (outside->inside); plus the layer's SBOM file being a second name of a read-only outside file; plus <layers>/<name> itself a second name of a "
            "canary file of mode 444 / 644 or a file of its own of mode 644/444/000, each with and without <name>.toml; "
            "sampled: up to 2 000 (quick, depth <=3) / 40 000 (thorough, depth <=5) trees in total: <=28 entries, directory modes "
            "755/700/500/300/000/555/777, file modes 644/600/444/000/755, 22 link-target kinds (outside dir/file rel+abs, through a "
            "non-searchable directory, sibling layer dir/file, own layer, ., .., sibling entry, dangling rel/abs, two-link cycles, "
            "self-loops), 3% top-level regular files (a third of them a second name of an outside file), 8% of the entries a hard link (existing outside file beside the layers directory / in a sibling layer / a read-only one, "
            "a fresh outside file with a random mode, another file of the layer, an outside name for a new file of the layer), 11% top-level links; 12 layer names incl. dotted and file-like ones (lyr.x, lyr.x.y, .hidden, `lyr.`, lyr.sbom, lyr.toml, "
            "lyr.toml.toml, lyr.sbom.cdx, a.b), each also in a directed case per API and user; in every case a canary tree and the sibling "
            "layers a confusion of names could reach - <n>x, <n>.x, <n>.sbom, <n>.toml, <n>.sbom.cdx, <n> minus its last byte, every stem of "
            "<n> (a.b.c -> a.b, a) - each with its own directory, <s>.toml and all three <s>.sbom.<fmt>.json, plus an unrelated sibling; "
            "40% as uid 65534 (a quarter of those with a restricted layers directory). "
            "non-trivial = the layer exists, its metadata file is a document, and it is a regular file or holds a symlink (or is one), a hard link (a name of an inode "
            "with further names) or a directory whose owner lacks r, w or x; distinct = distinct input line",
    "trusted_base": ["Spec/Frame.lean is my reading of C11 (own paths of a layer, Frame, Gone, Recreated)",
                     "the harness snapshot (symlink_metadata walk as root: kind, mode & 07777, content, link target with the temp root stripped, "
                     "st_nlink of a regular file when it is not 1); hard links are made with link(2) by the root parent after their target",
                     "Model/RmTree.lean's reading of hard links: Node.hard ino mode content under every name, chmod acts on the inode, unlink on the name"],
    "assumptions": COMMON_ASSUME + ["every node is owned by the caller; no ACLs, sticky bits, mount points, concurrent writers",
                                    "the layers directory is a real directory (not a symlink); <name>.toml is not a symlink"],
}
