from propcfg.common import COMMON_ASSUME

CFG = {
    "bin": "c13",
    "technique": "Lean 4 proof (post-order DFS with a shared visited set; rank invariant on open nodes; counting argument for the fuel) "
                 "+ differential correspondence through real buildpack directories",
    "level_text": "Theorems (every node list, every acyclic dependency relation, every root selection, no size bound; stated on node positions and, "
                  "for pairwise distinct ids, on buildpack ids — build_order_ids): the order computed by "
                  "get_dependencies contains exactly the selected nodes and their transitive dependencies, each once, every node after all of "
                  "its dependencies; the fuel of the model never runs out; create_dependency_graph fails exactly when a dependency names no node "
                  "and otherwise keeps every declared dependency as an edge (order, multiplicity); unknown roots are the only error of "
                  "get_dependencies; the executable judge used on the implementation's output is equivalent to the specification. Tied to the code "
                  "by a differential run of build_libcnb_buildpacks_dependency_graph + get_dependencies on generated directories.",
    "level_note": "Trusted: Lean kernel; Spec/Topo.lean (my reading of 'build order'); harness and driver glue. Modelled, not verified: "
                  "petgraph 0.8 Graph/DfsPostOrder (iterative; argued in Model/DepGraph.lean to emit in the order of the recursive DFS on every "
                  "graph, sampled by the correspondence), ignore::Walk, toml/serde, uriparse. Buildpack ids are assumed pairwise distinct in a "
                  "workspace (with duplicate ids the code resolves every reference to the first node carrying the id; outside the quantifier).",
    "shrink": [(1, "|"), (0, ";")],
    "exhaustive": True,
    "rule": "exhaustive: every labelled DAG on <=4 (quick) / <=5 (thorough) nodes, dependency lists in ascending and in descending label order, "
            "x every non-empty ordered selection of distinct roots (64 / 325 per 4- / 5-node graph; one case line per graph, one result per "
            "selection), each laid out as real buildpack directories (every 7th graph in a noisy layout: nested dirs, libcnb.rs and composite "
            "kinds, non-libcnb dependency URIs, foreign and unreadable buildpacks that must stay out of the graph); then seeded random DAGs "
            "(1..12 nodes, 12 ids incl. '/', '.', '-', duplicate dependency entries, 1..6 selections with repeated, unknown and empty roots, 3/4 "
            "in a noisy layout), 1/8 of them with one or two dangling dependencies; the empty workspace. The node order the directory walk "
            "produced is read from the real graph and handed to the model. non-trivial = a dependency chain of length >=2, or a node with >=2 "
            "dependents, or a dangling dependency; distinct = distinct case line",
    "trusted_base": ["Spec/Topo.lean is my reading of 'build order' (Reachable, DepsFirst, nodup); checkOrder is proved equivalent to it (Lemmas/Topo.lean)",
                     "the recursive DFS of Model/DepGraph.lean stands for petgraph's iterative DfsPostOrder (same emission order; sampled)"],
    "assumptions": COMMON_ASSUME + ["buildpack ids in one workspace are pairwise distinct",
                                    "petgraph Graph::neighbors yields out-edges newest first; DfsPostOrder keeps discovered/finished across move_to"],
}
