from propcfg.common import COMMON_ASSUME

CFG = {
    "bin": "c13",
    "technique": "Lean 4 proof (post-order DFS with a shared visited set; rank invariant on open nodes; counting argument for the fuel) "
                 "+ differential correspondence through real buildpack directories, and against the real cargo-libcnb executable (built from "
                 "/repo) packaging generated cargo workspaces: the order it really packages in is what the spec oracle judges",
    "level_text": "Theorems (every node list, every acyclic dependency relation, every root selection, no size bound; stated on node positions and, "
                  "for pairwise distinct ids, on buildpack ids — build_order_ids): the order computed by "
                  "get_dependencies contains exactly the selected nodes and their transitive dependencies, each once, every node after all of "
                  "its dependencies; the fuel of the model never runs out; create_dependency_graph fails exactly when a dependency names no node "
                  "and otherwise keeps every declared dependency as an edge (order, multiplicity); unknown roots are the only error of "
                  "get_dependencies; the executable judge used on the implementation's output is equivalent to the specification; packaging_order — "
                  "the sequence of buildpacks libcnb-cargo's execute hands to package_buildpack (model packagingOrder: graph of the workspace, "
                  "root_nodes from the invocation directory, get_dependencies, the loop over build_order as is) is non-empty and a build order "
                  "of its selection; execute fails with the missing-dependency error exactly when the workspace has a dangling dependency and "
                  "never with an unknown root. Tied to the code by (1) a differential run of build_libcnb_buildpacks_dependency_graph + "
                  "get_dependencies on generated directories and (2) running the real `cargo libcnb package` executable on generated cargo "
                  "workspaces from the root and from buildpack directories: the order of its '[n/m] Building <id>' progress lines (one per "
                  "package_buildpack call) must equal the model's packagingOrder and is judged by the same spec oracle (whyNot/checkOrder).",
    "level_note": "Trusted: Lean kernel; Spec/Topo.lean (my reading of 'build order'); harness and driver glue. Modelled, not verified: "
                  "petgraph 0.8 Graph/DfsPostOrder (iterative; argued in Model/DepGraph.lean to emit in the order of the recursive DFS on every "
                  "graph, sampled by the correspondence), ignore::Walk, toml/serde, uriparse; for the executable also cargo (locate-project, "
                  "metadata, build) and rustc, which are runtime. The order of packaging is observed through the executable's progress lines "
                  "(printed immediately before each package_buildpack call), not through file-system timestamps; only the host triple with "
                  "--no-cross-compile-assistance, the dev profile and an external --package-dir / CARGO_TARGET_DIR are exercised there (what "
                  "ends up in the package directory is C15's subject). The selection made by an invocation directory (buildpack there, else "
                  "all from the root, else nothing) is read off the case by the driver glue. Buildpack ids are assumed pairwise distinct in a "
                  "workspace (with duplicate ids the code resolves every reference to the first node carrying the id; outside the quantifier).",
    "shrink": [(1, "|"), (0, ";"), (2, ";")],
    "exhaustive": True,
    "rule": "family 1 (library functions) — exhaustive: every labelled DAG on <=4 (quick) / <=5 (thorough) nodes, dependency lists in ascending and in descending label order, "
            "x every non-empty ordered selection of distinct roots (64 / 325 per 4- / 5-node graph; one case line per graph, one result per "
            "selection), each laid out as real buildpack directories (every 7th graph in a noisy layout: nested dirs, libcnb.rs and composite "
            "kinds, non-libcnb dependency URIs, foreign and unreadable buildpacks that must stay out of the graph); then seeded random DAGs "
            "(1..12 nodes, 12 ids incl. '/', '.', '-', duplicate dependency entries, 1..6 selections with repeated, unknown and empty roots, 3/4 "
            "in a noisy layout), 1/8 of them with one or two dangling dependencies; the empty workspace; big graphs (kind=big): node counts 5, 8, "
            "16/17, 20/21, 32/33, 64/65, 128/129, 256/257, 300 x 21 shapes (chain in and against directory order, star out of the first / a middle "
            "node with ascending, descending, shuffled dependency lists, star into the first / last node, stacked diamonds both ways, layered DAG "
            "with and without long shortcut edges, chain with shortcut edges incl. first->last, binary tree both ways, complete DAG (<=65 nodes), "
            "many small disconnected components, isolated nodes, bipartite many-roots, every edge listed 2-3 times, sparse random DAG x2; quick: "
            "at 256, 257, 300 nodes a third of the shapes each, thorough: all, 2 rounds), 6 id styles (common stem + number so that ids are prefixes of one another, "
            "dotted / slashed nesting x, x.x, x.x/x, case variants a/A, 120-character ids, zero-padded numbers), nodes written in shuffled order in "
            "half of the cases, 1/10 with a dangling dependency, 10-13 (7-9 at >=256 nodes) explicit root selections each (all nodes in written order and reversed, "
            "all nodes nothing depends on, single first / last / middle / random nodes, pairs, repeated roots, the first 33, sometimes an unknown "
            "root and the empty selection), directory layouts plain / noisy / wide (directory names with blanks, non-ASCII, '%', '+', '~', "
            "sub-delims, upper case, 200-character names, 20 levels deep); 400 (quick) / 3 000 (thorough) medium random DAGs (kind=mid: 1..40 "
            "nodes, the same id styles, 1/3 of the nodes with duplicated dependency entries, dangling ids that extend an existing id, unknown "
            "roots that extend an existing id, 1/2 in the wide layout). Cyclic graphs are outside the property (acyclic sets only) and are not "
            "generated. The node order the directory walk "
            "produced is read from the real graph and handed to the model. family 2 (`pkg`: the real cargo-libcnb executable, one real cargo "
            "workspace per case: a dependency-free fn main(){} crate + component buildpack.toml [+ package.toml with libcnb: dependencies] per "
            "libcnb.rs buildpack, buildpack.toml with [[order]] + package.toml per composite; one run per invocation directory) — exhaustive: "
            "every labelled DAG on <=2 (quick) / <=3 (thorough) buildpacks x every assignment of kinds {libcnb.rs, composite} x invocation "
            "from the workspace root and from every buildpack directory (thorough: every third such workspace once more with one buildpack "
            "living in the workspace root); 12 hand-made workspaces (chains alternating kinds L>C>L, C>L>C, L>C>C, L>L>C; two diamonds mixing "
            "kinds with unrelated buildpacks beside them; composite / libcnb.rs buildpack in the workspace root depending on and depended on by "
            "others; a composite nested inside the libcnb.rs buildpack that depends on it; two unrelated pairs; 1/3 with a plain invocation "
            "directory = empty selection); then 20 (quick) / 160 (thorough, half of them on exactly 4 buildpacks) seeded random workspaces: "
            "3..7 buildpacks, random DAG, random kinds (<=3 crates), 4 directory styles, 1/4 one buildpack in the workspace root, 1/8 a "
            "dangling dependency, invoked from the root and <=4 buildpack directories, 1/4 also from a plain directory. The directory-walk "
            "order handed to the model is taken in-process with find_buildpack_dirs on the same unchanged tree. non-trivial = a dependency "
            "chain of length >=2, or a node with >=2 dependents, or a dangling dependency, or (family 2) a dependency between buildpacks of "
            "different kinds; distinct = distinct case line",
    "trusted_base": ["Spec/Topo.lean is my reading of 'build order' (Reachable, DepsFirst, nodup); checkOrder is proved equivalent to it (Lemmas/Topo.lean)",
                     "the recursive DFS of Model/DepGraph.lean stands for petgraph's iterative DfsPostOrder (same emission order; sampled)",
                     "packagingOrder (Model/DepGraph.lean) stands for libcnb-cargo's execute up to and including the order of its package_buildpack calls; "
                     "the '[n/m] Building <id>' progress lines are taken as the record of those calls (one line printed right before each call)",
                     "harness: generation of a real cargo workspace from the abstract one; cargo/rustc are runtime; the executable is built from /repo's working tree "
                     "into /verif/harness/target/c15-tool on every run"],
    "assumptions": COMMON_ASSUME + ["buildpack ids in one workspace are pairwise distinct",
                                    "petgraph Graph::neighbors yields out-edges newest first; DfsPostOrder keeps discovered/finished across move_to",
                                    "pkg family: the workspace tree does not change between the harness's own find_buildpack_dirs call and the executable's "
                                    "(checked: the walk is taken again after the runs and must be equal); every generated crate compiles (offline, no dependencies)"],
}
