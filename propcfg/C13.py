from propcfg.common import COMMON_ASSUME

CFG = {
    "bin": "c13",
    "technique": "Lean 4 proof (post-order DFS with a shared visited set; rank invariant on open nodes; counting argument for the fuel) "
                 "+ differential correspondence through real buildpack directories, and against the real cargo-libcnb executable (built from "
                 "/repo) packaging generated cargo workspaces: the order it really packages in is what the spec oracle judges",
    "level_text": "Theorems (every node list, every acyclic dependency relation, every root selection, no size bound; stated on node positions and, "
                  "for pairwise distinct ids, on buildpack ids — build_order_ids): the order computed by "
                  "get_dependencies contains exactly the selected nodes and their transitive dependencies, each once, every node after all of "
                  "its dependencies; the fuel of the model never runs out; create_dependency_graph fails exactly when a dependency names no node "
                  "and otherwise keeps every declared dependency as an edge (order, multiplicity); unknown roots are the only error of "
                  "get_dependencies; the executable judge used on the implementation's output is equivalent to the specification; packaging_order — "
                  "the sequence of buildpacks libcnb-cargo's execute hands to package_buildpack (model packagingOrder: graph of the workspace, "
                  "root_nodes from the invocation directory, get_dependencies, the loop over build_order as is) is non-empty and a build order "
                  "of its selection; execute fails with the missing-dependency error exactly when the workspace has a dangling dependency and "
                  "never with an unknown root; discovery_independent_of_links / placed_buildpack_is_node / "
                  "missing_dependency_only_when_dangling — the node list handed to create_dependency_graph (model discover) holds every buildpack placed "
                  "in the workspace whether its directory entry is a directory or a symbolic link (any chain) to one, so MissingDependency names only ids "
                  "that no buildpack of the workspace carries. Tied to the code by (1) a differential run of build_libcnb_buildpacks_dependency_graph + "
                  "get_dependencies on generated directories and (2) running the real `cargo libcnb package` executable on generated cargo "
                  "workspaces from the root and from buildpack directories: the order of its '[n/m] Building <id>' progress lines (one per "
                  "package_buildpack call) must equal the model's packagingOrder and is judged by the same spec oracle (whyNot/checkOrder).",
    "level_note": "Trusted: Lean kernel; Spec/Topo.lean (my reading of 'build order', and nodeSetWhyNot: the nodes of the graph are exactly the "
                  "buildpacks of the workspace — checked on every `lnk` and `pkg` observation, as before on every family-1 observation); harness and driver glue. "
                  "Which directory entries are buildpacks of the workspace is read off the case: an entry below the workspace root that resolves to a "
                  "directory holding buildpack.toml, be it a directory or a symbolic link to one (absolute / relative target, chain of two links, "
                  "target outside the walked tree so that it appears once). What lies below an INTERMEDIATE directory that is a link (ws/via -> ../shared) "
                  "is not visited by ignore::Walk (follow_links = false, the walker's documented behaviour, runtime dependency): such buildpacks are "
                  "treated as not part of the workspace (a dependency on one is a dangling one, selecting one is an unknown root) — observed on the "
                  "unchanged code, not an alarm. Modelled, not verified: "
                  "petgraph 0.8 Graph/DfsPostOrder (iterative; argued in Model/DepGraph.lean to emit in the order of the recursive DFS on every "
                  "graph, sampled by the correspondence), ignore::Walk, toml/serde, uriparse; for the executable also cargo (locate-project, "
                  "metadata, build) and rustc, which are runtime. The order of packaging is observed through the executable's progress lines "
                  "(printed immediately before each package_buildpack call), not through file-system timestamps; only the host triple with "
                  "--no-cross-compile-assistance, the dev profile and an external --package-dir / CARGO_TARGET_DIR are exercised there (what "
                  "ends up in the package directory is C15's subject). The selection made by an invocation directory (buildpack there, else "
                  "all from the root, else nothing) is read off the case by the driver glue. Buildpack ids are assumed pairwise distinct in a "
                  "workspace (with duplicate ids the code resolves every reference to the first node carrying the id; outside the quantifier).",
    "shrink": [(1, "|"), (0, ";"), (2, ";")],
    "exhaustive": True,
    "rule": "family 1 (library functions) — exhaustive: every labelled DAG on <=4 (quick) / <=5 (thorough) nodes, dependency lists in ascending and in descending label order, "
            "x every non-empty ordered selection of distinct roots (64 / 325 per 4- / 5-node graph; one case line per graph, one result per "
            "selection), each laid out as real buildpack directories (every 7th graph in a noisy layout: nested dirs, libcnb.rs and composite "
            "kinds, non-libcnb dependency URIs, foreign and unreadable buildpacks that must stay out of the graph); then seeded random DAGs "
            "(1..12 nodes, 12 ids incl. '/', '.', '-', duplicate dependency entries, 1..6 selections with repeated, unknown and empty roots, 3/4 "
            "in a noisy layout), 1/8 of them with one or two dangling dependencies; the empty workspace; big graphs (kind=big): node counts 5, 8, "
            "16/17, 20/21, 32/33, 64/65, 128/129, 256/257, 300 x 21 shapes (chain in and against directory order, star out of the first / a middle "
            "node with ascending, descending, shuffled dependency lists, star into the first / last node, stacked diamonds both ways, layered DAG "
            "with and without long shortcut edges, chain with shortcut edges incl. first->last, binary tree both ways, complete DAG (<=65 nodes), "
            "many small disconnected components, isolated nodes, bipartite many-roots, every edge listed 2-3 times, sparse random DAG x2; quick: "
            "at 256, 257, 300 nodes a third of the shapes each, thorough: all, 2 rounds), 6 id styles (common stem + number so that ids are prefixes of one another, "
            "dotted / slashed nesting x, x.x, x.x/x, case variants a/A, 120-character ids, zero-padded numbers), nodes written in shuffled order in "
            "half of the cases, 1/10 with a dangling dependency, 10-13 (7-9 at >=256 nodes) explicit root selections each (all nodes in written order and reversed, "
            "all nodes nothing depends on, single first / last / middle / random nodes, pairs, repeated roots, the first 33, sometimes an unknown "
            "root and the empty selection), directory layouts plain / noisy / wide (directory names with blanks, non-ASCII, '%', '+', '~', "
            "sub-delims, upper case, 200-character names, 20 levels deep); 400 (quick) / 3 000 (thorough) medium random DAGs (kind=mid: 1..40 "
            "nodes, the same id styles, 1/3 of the nodes with duplicated dependency entries, dangling ids that extend an existing id, unknown "
            "roots that extend an existing id, 1/2 in the wide layout). Cyclic graphs are outside the property (acyclic sets only) and are not "
            "generated. The node order the directory walk "
            "produced is read from the real graph and handed to the model. family 2 (`pkg`: the real cargo-libcnb executable, one real cargo "
            "workspace per case: a dependency-free fn main(){} crate + component buildpack.toml [+ package.toml with libcnb: dependencies] per "
            "libcnb.rs buildpack, buildpack.toml with [[order]] + package.toml per composite; one run per invocation directory) — exhaustive: "
            "every labelled DAG on <=2 (quick) / <=3 (thorough) buildpacks x every assignment of kinds {libcnb.rs, composite} x invocation "
            "from the workspace root and from every buildpack directory (thorough: every third such workspace once more with one buildpack "
            "living in the workspace root); 12 hand-made workspaces of real directories (chains alternating kinds L>C>L, C>L>C, L>C>C, L>L>C; two diamonds mixing "
            "kinds with unrelated buildpacks beside them; composite / libcnb.rs buildpack in the workspace root depending on and depended on by "
            "others; a composite nested inside the libcnb.rs buildpack that depends on it; two unrelated pairs; 1/3 with a plain invocation "
            "directory = empty selection); then 20 (quick) / 160 (thorough, half of them on exactly 4 buildpacks) seeded random workspaces: "
            "3..7 buildpacks, random DAG, random kinds (<=3 crates), 4 directory styles, 1/4 one buildpack in the workspace root, 1/8 a "
            "dangling dependency, invoked from the root and <=4 buildpack directories, 1/4 also from a plain directory. The directory-walk "
            "order handed to the model is taken in-process with find_buildpack_dirs on the same unchanged tree; the verdict requires that walk to hold "
            "every buildpack of the case. 5 further hand-made workspaces with composites whose directory entry is a symbolic link to a directory "
            "outside the workspace (kind S; absolute / relative target by position): dependency of a composite beside a crate (two directory depths), "
            "top of a chain over a crate, unrelated, a link depending on a link; invoked from the root and every real buildpack directory (never from "
            "inside a linked directory: the process's cwd is then outside the cargo workspace). family 3 (`lnk`: library functions, buildpack "
            "directories behind symbolic links; per buildpack one of: real directory at depth 1 / 2, link with absolute target, link with relative "
            "target at depth 1 / 2, chain of two links relative-then-absolute / absolute-then-relative, real directory whose buildpack.toml / "
            "package.toml / Cargo.toml are links to files, real directory below an intermediate linked directory; all targets outside the walked tree, ids "
            "pairwise distinct, each buildpack once) — exhaustive: every labelled DAG on <=3 buildpacks x every assignment of {directory, absolute link, "
            "relative link, chain} (thorough: + below-intermediate-link) with at least one non-directory x every non-empty ordered selection of distinct "
            "buildpacks (so each linked buildpack is a dependency, a root, the whole-workspace selection's member, or unrelated), every 5th with noise "
            "entries (dangling link, link to a directory without buildpack.toml, link to a file, link to ..); 24 hand-made (6 link styles x {dependency "
            "of a composite, top of a chain, unrelated, middle + base of a diamond}); 3 with every / some buildpacks below ws/via -> ../shared; 300 "
            "(quick) / 4 000 (thorough) seeded random (1..8 buildpacks, the long id pool, all 9 ways mixed, 1/8 a dangling dependency, whole-workspace "
            "selection + 1..5 random ones with repeats / unknown / empty). non-trivial = a dependency "
            "chain of length >=2, or a node with >=2 dependents, or a dangling dependency, or (family 2) a dependency between buildpacks of "
            "different kinds, or (family 3) a linked buildpack directory that is a dependency of another buildpack or selected; distinct = distinct case line",
    "trusted_base": ["Spec/Topo.lean is my reading of 'build order' (Reachable, DepsFirst, nodup); checkOrder is proved equivalent to it (Lemmas/Topo.lean)",
                     "discover (Model/DepGraph.lean) stands for find_buildpack_dirs + the kind filter: an entry counts when it resolves to a directory (link or not), entries below a linked intermediate directory are never seen (ignore::Walk; sampled by the `lnk` family)",
                     "the recursive DFS of Model/DepGraph.lean stands for petgraph's iterative DfsPostOrder (same emission order; sampled)",
                     "packagingOrder (Model/DepGraph.lean) stands for libcnb-cargo's execute up to and including the order of its package_buildpack calls; "
                     "the '[n/m] Building <id>' progress lines are taken as the record of those calls (one line printed right before each call)",
                     "harness: generation of a real cargo workspace from the abstract one; cargo/rustc are runtime; the executable is built from /repo's working tree "
                     "into /verif/harness/target/c15-tool on every run"],
    "assumptions": COMMON_ASSUME + ["buildpack ids in one workspace are pairwise distinct",
                                    "a buildpack of the workspace = a directory entry the walk visits that resolves (through any chain of symbolic links) to a directory holding "
                                    "buildpack.toml; link targets lie outside the walked tree, so no buildpack is visited twice (a link to a directory inside the tree would "
                                    "duplicate an id: outside the quantifier); buildpacks below an intermediate directory that is itself a link are not part of the workspace "
                                    "(ignore::Walk does not follow links while descending)",
                                    "git-ignored / hidden buildpack directories (skipped by ignore::Walk) are not generated",
                                    "petgraph Graph::neighbors yields out-edges newest first; DfsPostOrder keeps discovered/finished across move_to",
                                    "pkg family: the workspace tree does not change between the harness's own find_buildpack_dirs call and the executable's "
                                    "(checked: the walk is taken again after the runs and must be equal); every generated crate compiles (offline, no dependencies)"],
}
