COMMON_ASSUME = [
    "Rust std, serde/toml and the other third-party crates behave as modelled (sampled by the correspondence, not proved)",
    "the correspondence sample (distribution in coverage.distribution) reaches every branch of the model",
]
