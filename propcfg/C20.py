from propcfg.common import COMMON_ASSUME

CFG = {
    "confirm_rerun": False,  # the property is about run-to-run variation / timing: a failure stands as observed
    "bin": "c20",
    "extra_bins": ["tbp"],
    "technique": "Lean 4 proof (writers parameterised by the hash-iteration order, statements over every permutation; exec.d replacement also on a "
                 "storage-aware model that keeps hard-link / symlink identity of a restored exec.d; "
                 "SBOM files as a fold over the Vec of registered SBOMs: last registration per (target, format) stays, no hash order involved; "
                 "decide-able obligations on the regenerated iteration sites / serialised field types) + paired fresh-process runs compared byte for byte",
    "level_text": "Theorems (all inputs, every permutation, no bound): LayerEnv::write_to_layer_dir, replace_layer_exec_d_programs and the "
                  "trait API's write_layer leave the same layer (same entries at every level of the directory tree, same <layer>.toml document, "
                  "same SBOM files) and return the same result whatever order the process map / exec.d program map is iterated in; "
                  "a restored layer's exec.d written again: whatever the directory held before (any files, links, directories: execd_previous_content_irrelevant) and, on the model that "
                  "keeps storage identity (XFs: hard links of one inode inside/outside exec.d, symlinks to siblings or elsewhere, fs::copy writing through them), for any two prior states and "
                  "any two iteration orders the call completes, leaves the same directory, every wanted name a regular file of its own (link count 1) with its own source's bytes, and writes no "
                  "pre-existing storage (execd_rewrite_ignores_restored_entries; in_place_overwrite_depends_on_order shows the wipe is what carries it); "
                  "SBOM files: the build phase writes build_sboms then launch_sboms, and replace_layer_sboms a layer's slice, front to back in the order the SBOMs were registered, so for any number of SBOMs "
                  "of one format the file of every (target, format) holds the one registered last, a function of the Vec alone (phase_sboms_last_wins, phase_sboms_depend_on_the_vecs_only, layer_sboms_last_wins); "
                  "a reordering of the Vec is invisible exactly when no format repeats (sboms_distinct_formats_order_irrelevant) and decides the bytes otherwise (sbom_vec_order_matters); "
                  "every hash-iteration and read_dir site of the phase and layer code is one the model covers (Gen.HashSites, regenerated), "
                  "no serialised phase document has a hash-backed field, toml::Table is a BTreeMap, no clock/random source is mentioned. "
                  "Tied to the code by Gen.HashSites and by running every scenario in 4 fresh processes (3 pairs; 6 processes for the restored-exec.d scenarios) and comparing all bytes, "
                  "link targets, the bytes behind every symlink and the link count / inode sharing of every file; for the restored-exec.d scenarios the model also predicts the exec.d listing, "
                  "for the repeated-SBOM scenarios (6 processes, real build phase / write_sboms / trait update) the SBOM files, and the oracle demands the last-registered bytes in every file.",
    "level_note": "PARTIAL. Proved on the model for the success paths; the error path of replace_layer_exec_d_programs (missing source file) "
                  "leaves an order-dependent subset in exec.d (Props/C20 execd_error_path_counterexample: FullStatement is false there). "
                  "Byte-level determinism of the toml serializer and of std (fs::write, fs::copy, create_dir_all modes) is sampled by the paired runs, not proved. "
                  "The storage-aware exec.d model (XFs) covers exec.d being a directory or absent and every source present; that remove_dir_all unlinks names without writing their storage and that "
                  "fs::copy creates a fresh inode for an absent name is std/kernel behaviour assumed by the model and sampled by the kind-execd scenarios (their listing carries link counts); "
                  "exec.d itself being a symlink is only sampled (layers-execdlink), the Dir-level model (C01's) does not follow it. "
                  "SBOMs: 'the last SBOM registered for a format stays' is what the unchanged code does (Vec order, fs::write truncates) and what the oracle of the sbom scenarios demands; the property text itself only "
                  "asks for identical bytes, so an implementation that deterministically kept another one would be flagged by this oracle although C20 as worded holds. The model has no error path for SBOM writes "
                  "(a file that cannot be written ends the loop; sampled by the tbp pre-existing-directory scenarios, equality only). "
                  "The hash-site scan approximates types from annotations read with syn (field/param/local/variant types, return types, wrappers to a fixpoint); "
                  "an iteration hidden behind a generic or a macro-generated type is only caught by the paired runs. "
                  "Two error paths leave a HashMap-order-dependent subset behind (known findings C20-execd-missing-source-partial, C20-env-process-clash-partial; witnesses in corpus/C20; the generator stays free of both classes). "
                  "Outside the property's file list: libcnb-data ExecDProgramOutput(HashMap) derives Serialize, so the TOML an exec.d program writes to fd 3 has hash-ordered keys "
                  "(recorded in Gen.HashSites.serFields; no_hash_backed_serialised_field lists it as the only hash-backed serialised type, not a phase document). "
                  "Trusted: Lean kernel; Spec/Determinism (canonical form = sorted at every level, first occurrence wins; execdVerdict); translator part hashsites.rs; harness c20.rs.",
    "shrink": [(2, ";"), (1, ",")],
    "search_tier": "quick",
    "search_rounds": 2,
    "rule": "fixed part: toml::Table order probe; every C05 build-result subset through tbp (detect x 4 behaviours, build x 18 behaviours x 2 pre-existing states); "
            "directed layer histories (cached/uncached request, metadata with several keys, env in all scopes with 3-6 process types, 3-6 exec.d programs, "
            "SBOMs in all formats, restore, second request with every restored-layer action; the same through the trait API's handle_layer with each "
            "existing-layer strategy). Class dupenv (24 quick / 160 thorough): a hand-prepared layer whose env, env.build, env.launch or env.launch/<process> directory holds both "
            "VAR (suffix-less = override) and VAR.override with different contents for 2-4 variables in 1-4 directories, optionally restored, then read and written "
            "again through LayerRef::read_env + write_env, trait-API Keep, or MetadataMigration::ReplaceMetadata followed by Keep (typed metadata). "
            "Kind execd (84 fixed + 48 sampled quick / 160 per search round / 600 thorough): a cached layer whose exec.d is prepared by hand, restored, and written again with 2-4 wanted programs "
            "from distinct sources through the struct API (cached_layer -> KeepLayer -> LayerRef::write_exec_d_programs) or the trait API (ExistingLayerStrategy::Update returning the programs); "
            "fixed part = 14 patterns x n in 2..4 x both APIs: no exec.d, plain files + stale file + sub-directory, a wanted name symlinked to a wanted sibling (both directions), two / all wanted names "
            "hard links of one inode, two wanted names symlinked to one file elsewhere in the layer / outside the layers directory / to one missing sibling, symlink onto a hard-linked pair, stale names "
            "aliasing wanted ones, wanted names hard-linked with a file outside exec.d, partially pre-existing, a self-referencing symlink; sampled part = each of 2-4 wanted and 0-2 stale names (out of 6) "
            "absent / plain / symlink (sibling, ../bin/tool, outside, dangling) / hard link of an earlier file. 6 fresh processes (18 on replay); the observation is differ:<line> or "
            "equal|<result>|<exec.d listing: name, kind, bytes, link count, bytes behind a symlink>, the model (Det.replaceExecdX on the storage-aware state built from the same entries) predicts the listing. "
            "Kind sbom (76 fixed + 40 phase-level / 16 layer-level sampled quick, 120/40 per search round, 600/200 thorough): SBOM registrations with repeated formats. Routes bp (data-driven buildpack) and tbp (C05 test buildpack, payload by position, "
            "empty / non-UTF-8 payloads): the real build phase on a fresh layers directory with a BuildResult of 0-8 build and 0-8 launch SBOMs; routes ls (cached_layer + LayerRef::write_sboms) and lt (trait API create, restore, "
            "ExistingLayerStrategy::Update returning the SBOMs) on a layer that already has an SBOM of every format. Fixed part, n in 0..8: n build SBOMs cycling cdx,spdx,syft with distinct bytes (n>=4: same format again, other bytes), "
            "n launch SBOMs cycling the other way, both interleaved, n documents of one format beside n exact duplicates (n>=2), the same through tbp with launch/store items, cycling lists through ls/lt, first-pass documents + "
            "one handed in again unchanged + a refined one at the end (n=4,6,8). Sampled: per target a third of the cases every format 2-3 times shuffled (<=8), else 0-8 SBOMs of random formats, bytes out of 3 documents per format "
            "(exact duplicates and same-format-other-bytes both arise), a quarter without launch SBOMs, registrations shuffled with launch.toml / store items (a third of the bp cases with 3..33 processes, labels, slices, store keys). "
            "6 fresh processes (18 on replay); observation differ:<line> or equal|<result>|<SBOM files name=bytes>, the model (Det.writeBuildResultSboms / replaceLayerSbomFiles) predicts the files, the oracle (Spec.Det.sbomVerdict) "
            "demands equal runs and in every file the bytes registered last for it, no other SBOM file. "
            "Sizes (16 cases): for n in 3,4,8,9,16,17,32,33 a build with n processes, n labels, n slices, a store of n keys (some nested), all six SBOM files, pre-existing store; and a layer history with n metadata keys, "
            "n process types, n exec.d programs written, restored, written again through the struct API and through the trait API's Update (with a repeated SBOM format). "
            "6 layers-kind histories (execdlink) make exec.d itself a symlink (to a directory of the layer, outside, dangling) with ops K (symlink) / H (hard link) / Q (exec.d listing). Then seeded sampling: layer histories (<=14 ops quick / <=30 thorough over 3 layer names, struct and trait ops mixed), "
            "data-driven buildpack runs as detect (provides/requires/or with multi-key metadata) and build (layers via both APIs, launch.toml with several "
            "processes/labels/slices, store with nested multi-key metadata, build and launch SBOMs, pre-existing store). Each scenario = 4 fresh processes "
            "(10 when a single case is replayed: corpus, shrinking, --replay; own temp root each; std's hash seed differs per process), runs 2-4 compared with run 1 line by line over exit status, step results and a raw "
            "snapshot (path, mode, hex of all bytes; link target and the bytes behind every symlink; link count and first path of the same inode for files with several names) "
            "of the layers directory and the plan file; 1 in 16 scenarios waits 1.1 s before the last run "
            "(second-resolution timestamps). non-trivial = some single write involves >=3 hash-ordered keys (process types or exec.d programs) "
            "or the run writes a TOML document with >=2 table keys / array entries, or (kind execd) >=2 wanted names shared storage beforehand or >=3 names are wanted, or (kind sbom) some target / layer gets two SBOMs of one format or >=4 SBOMs; distinct = distinct input line",
    "trusted_base": ["Spec/Determinism.lean: what 'the same directory' means (canon; S1-S4 in Props/C20 state its meaning); execdVerdict: runs equal and, on success, exec.d = exactly the wanted names, each an independent regular file with its own source's bytes",
                     "Model/Determinism.lean XFs / XFs.copyTo: fs::copy onto an existing name writes the storage the name designates (through symlinks, into a shared inode); remove_dir_all only unlinks; a name created by the call has storage of its own",
                     "Driver/C20.lean: replay of the hand-prepared entries (f/l/h) into XFs and the listing format; harness c20.rs execd_history / execd_listing / raw_snapshot (link-ness is part of the snapshot)",
                     "Spec/Determinism.lean sbomVerdict / lastRegistered: runs equal and every SBOM file = the bytes registered last for its (target, format), nothing else; "
                     "Driver/C20.lean handleSbom: which registrations a scenario's items stand for (bp items b/h, the test buildpack's payload-by-position rule, the three SBOMs a layer scenario starts with), file names from Gen.Tables.sbomSuffixes; "
                     "harness c20.rs sbom_history / sbom_observation (top-level *.sbom.*.json files of the layers directory of the first run)",
                     "Gen.HashSites regenerated from /repo by translator/hashsites.rs (syn): iteration / read_dir / entropy sites, serialised field types, toml features"],
    "assumptions": COMMON_ASSUME + [
        "std's HashMap iteration order is a permutation of the entries (each key once); keys of a map are distinct",
        "the toml serializer and std::fs are deterministic functions of their arguments (sampled: 4 processes per scenario)",
        "read_dir order is the same in every process for identical inputs on one file system (ext4 here; sampled by the dupenv class: which of two files designating one variable wins)",
        "a hash-order leak over >=3 keys shows in at least one of 3 pairs with probability >= 0.99",
        "two SBOMs of one format handed on in a per-process order: each run keeps the right one with probability 1/2, so 6 runs are all equal and right with probability 2^-6 (18 runs on replay: 2^-18); "
        "equal-but-wrong runs are caught by the content oracle; >= 40 such scenarios in a quick run",
        "a leak between two aliased exec.d names shows in one pair with probability 1/2: 5 pairs per scenario (>= 0.96), 17 on replay; over the >= 50 aliasing scenarios of a quick run a miss is negligible; a run that happens to be equal is still judged on its content",
    ],
}
