from propcfg.common import COMMON_ASSUME

CFG = {
    "bin": "c20",
    "extra_bins": ["tbp"],
    "technique": "Lean 4 proof (writers parameterised by the hash-iteration order, statements over every permutation; "
                 "decide-able obligations on the regenerated iteration sites / serialised field types) + paired fresh-process runs compared byte for byte",
    "level_text": "Theorems (all inputs, every permutation, no bound): LayerEnv::write_to_layer_dir, replace_layer_exec_d_programs and the "
                  "trait API's write_layer leave the same layer (same entries at every level of the directory tree, same <layer>.toml document, "
                  "same SBOM files) and return the same result whatever order the process map / exec.d program map is iterated in; "
                  "every hash-iteration and read_dir site of the phase and layer code is one the model covers (Gen.HashSites, regenerated), "
                  "no serialised phase document has a hash-backed field, toml::Table is a BTreeMap, no clock/random source is mentioned. "
                  "Tied to the code by Gen.HashSites and by running every scenario in 4 fresh processes (3 pairs) and comparing all bytes.",
    "level_note": "PARTIAL. Proved on the model for the success paths; the error path of replace_layer_exec_d_programs (missing source file) "
                  "leaves an order-dependent subset in exec.d (Props/C20 execd_error_path_counterexample: FullStatement is false there). "
                  "Byte-level determinism of the toml serializer and of std (fs::write, fs::copy, create_dir_all modes) is sampled by the paired runs, not proved. "
                  "The hash-site scan approximates types from annotations read with syn (field/param/local/variant types, return types, wrappers to a fixpoint); "
                  "an iteration hidden behind a generic or a macro-generated type is only caught by the paired runs. "
                  "Two error paths leave a HashMap-order-dependent subset behind (known findings C20-execd-missing-source-partial, C20-env-process-clash-partial; witnesses in corpus/C20; the generator stays free of both classes). "
                  "Outside the property's file list: libcnb-data ExecDProgramOutput(HashMap) derives Serialize, so the TOML an exec.d program writes to fd 3 has hash-ordered keys "
                  "(recorded in Gen.HashSites.serFields; no_hash_backed_serialised_field lists it as the only hash-backed serialised type, not a phase document). "
                  "Trusted: Lean kernel; Spec/Determinism (canonical form = sorted at every level, first occurrence wins); translator part hashsites.rs; harness c20.rs.",
    "shrink": [(2, ";")],
    "search_tier": "quick",
    "search_rounds": 2,
    "rule": "fixed part: toml::Table order probe; every C05 build-result subset through tbp (detect x 4 behaviours, build x 18 behaviours x 2 pre-existing states); "
            "directed layer histories (cached/uncached request, metadata with several keys, env in all scopes with 3-6 process types, 3-6 exec.d programs, "
            "SBOMs in all formats, restore, second request with every restored-layer action; the same through the trait API's handle_layer with each "
            "existing-layer strategy). Class dupenv (24 quick / 160 thorough): a hand-prepared layer whose env, env.build, env.launch or env.launch/<process> directory holds both "
            "VAR (suffix-less = override) and VAR.override with different contents for 2-4 variables in 1-4 directories, optionally restored, then read and written "
            "again through LayerRef::read_env + write_env, trait-API Keep, or MetadataMigration::ReplaceMetadata followed by Keep (typed metadata). Then seeded sampling: layer histories (<=14 ops quick / <=30 thorough over 3 layer names, struct and trait ops mixed), "
            "data-driven buildpack runs as detect (provides/requires/or with multi-key metadata) and build (layers via both APIs, launch.toml with several "
            "processes/labels/slices, store with nested multi-key metadata, build and launch SBOMs, pre-existing store). Each scenario = 4 fresh processes "
            "(10 when a single case is replayed: corpus, shrinking, --replay; own temp root each; std's hash seed differs per process), runs 2-4 compared with run 1 line by line over exit status, step results and a raw "
            "snapshot (path, mode, hex of all bytes) of the layers directory and the plan file; 1 in 16 scenarios waits 1.1 s before the last run "
            "(second-resolution timestamps). non-trivial = some single write involves >=3 hash-ordered keys (process types or exec.d programs) "
            "or the run writes a TOML document with >=2 table keys / array entries; distinct = distinct input line",
    "trusted_base": ["Spec/Determinism.lean: what 'the same directory' means (canon; S1-S4 in Props/C20 state its meaning)",
                     "Gen.HashSites regenerated from /repo by translator/hashsites.rs (syn): iteration / read_dir / entropy sites, serialised field types, toml features"],
    "assumptions": COMMON_ASSUME + [
        "std's HashMap iteration order is a permutation of the entries (each key once); keys of a map are distinct",
        "the toml serializer and std::fs are deterministic functions of their arguments (sampled: 4 processes per scenario)",
        "read_dir order is the same in every process for identical inputs on one file system (ext4 here; sampled by the dupenv class: which of two files designating one variable wins)",
        "a hash-order leak over >=3 keys shows in at least one of 3 pairs with probability >= 0.99",
    ],
}
